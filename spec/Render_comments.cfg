SPECIFICATION Spec
CONSTANTS
  Legacy = {}
  Universe = "comments"
  MaxArity = 3
INVARIANT Holds
CONSTRAINT Emit
CHECK_DEADLOCK FALSE
