--------------------------- MODULE Trace_Register ---------------------------
(***************************************************************************)
(* Trace validation of the repository's OWN test suite.  The tests of      *)
(* package jen are run with the hooks on (build tag verif); the tracer in  *)
(* jen/verif_trace_test.go writes one event per File.register call (at its *)
(* entry: path + the File's import table and hints as they are then), per  *)
(* Dict key and per File.Render (after the body, before the import block   *)
(* is printed).  Every register event is checked as ONE TRANSITION of the  *)
(* specification:  the table seen at the File's next event must be         *)
(* Jen!Reg(cfg, table, path), up to Anon calls in between (Anon is a       *)
(* public call without a hook: it is composed silently - it can only       *)
(* overwrite entries with ("_", alias)).  The alias guess comes from       *)
(* JenGuess.  (C) monitors on the observed tables: names never change once *)
(* given (C08), names in a table that is about to be printed are unique    *)
(* and legal (C05), the local path is never imported (C06).                *)
(***************************************************************************)
EXTENDS Jen, JenGuess, Json, CSV

CONSTANTS TraceFile, VFile
Trace == ndJsonDeserialize(TraceFile)

VARIABLES l, pend, bound
vars == <<l, pend, bound>>
E == Trace[l]
Report(prop, key) == CSVWrite("%1$s", <<ToJson([prop |-> prop, trace |-> E.file, line |-> l, key |-> key])>>, VFile)

TableFn(t) == [p \in {t[i].path : i \in DOMAIN t} |-> LET i == CHOOSE i \in DOMAIN t : t[i].path = p IN Def(t[i].name, t[i].alias)]
\* t is p after zero or more Anon calls
AnonExt(p, t) == /\ DOMAIN p \subseteq DOMAIN t
                 /\ \A q \in DOMAIN t : (q \in DOMAIN p /\ t[q] = p[q]) \/ t[q] = Def("_", TRUE)

Init == l = 1 /\ pend = <<>> /\ bound = <<>>

Step ==
  /\ l <= Len(Trace) /\ l' = l + 1
  /\ LET f  == E.file
         TB == TableFn(E.imports)
         H  == TableFn(E.hints)
         B  == IF f \in DOMAIN bound THEN bound[f] ELSE <<>>
         cfg == [local |-> E.local, prefix |-> E.prefix, hints |-> H,
                 paths |-> [p \in {E.arg} |-> [std |-> E.info.std, guess |-> Guess(E.info.lower)]]]
         named == {p \in DOMAIN TB : TB[p].name \notin {"", "_"}}
     IN \* (B) the previous register of this File was a transition of the specification
        /\ (f \in DOMAIN pend /\ ~AnonExt(pend[f], TB)) => Report("DRIFT", "register")
        /\ pend' = Put(pend, f, IF E.ev = "register" THEN Reg(cfg, TB, E.arg)[1] ELSE TB)
        \* (C) C08: a path keeps its name
        /\ \A p \in DOMAIN B : (p \notin DOMAIN TB \/ TB[p].name # B[p]) => Report("C08", p)
        /\ bound' = Put(bound, f, [p \in DOMAIN B \cup named |-> IF p \in DOMAIN B THEN B[p] ELSE TB[p].name])
        \* (C) on the table the import block is printed from
        /\ (E.ev = "rendered") =>
             /\ \A p, q \in DOMAIN TB : (p # q /\ TB[p].name = TB[q].name /\ TB[p].name \notin {"_", "."}) => Report("C05", TB[p].name)
             /\ \A i \in DOMAIN E.imports : (E.imports[i].alias /\ E.imports[i].name \notin {"_", "."} /\ ~E.imports[i].legal)
                                               => Report("C05", E.imports[i].name)
             /\ (E.local # "" /\ E.local \in DOMAIN TB) => Report("C06", E.local)

Spec == Init /\ [][Step]_vars
Accepted == TLCGet("stats").diameter - 1 = Len(Trace)
=============================================================================
