SPECIFICATION TSpec
CONSTANTS
  Chunks = 1
  TraceFile = "trace.ndjson"
  VFile = "viol.ndjson"
POSTCONDITION Accepted
CHECK_DEADLOCK FALSE
