SPECIFICATION Spec
CONSTANTS
  Legacy = {}
  Universe = "repeat"
  MaxArity = 2
INVARIANT Holds
CONSTRAINT Emit
CHECK_DEADLOCK FALSE
