------------------------------ MODULE JenConc ------------------------------
(***************************************************************************)
(* C09: N independent jobs, each owning a File and a body; a step of job j *)
(* is one call of File.register on j's own File (the instrumented point    *)
(* H1).  The claim is the ABSENCE of shared variables: every job's import  *)
(* table after any interleaving equals the table it gets when run alone.   *)
(* The deviation SharedCounter (a package-level alias counter instead of   *)
(* the per-File search) is the negative configuration.                     *)
(***************************************************************************)
EXTENDS Jen, Json, CSV

CONSTANTS Jobs,        \* 1..N
          NRefs,        \* qualified references per job (each reaches File.register twice: once from the
                       \* enclosing group, once from the package token itself)
          SharedCounter
Steps == 2 * NRefs

\* every job references the same colliding paths, in a job-specific rotation, with a job-specific prefix
RefPath(j, r) == LET base == <<"x/d", "y/d", "z/d">> IN base[((r + j) % 3) + 1]
PathSeq(j) == [i \in 1..Steps |-> RefPath(j, (i + 1) \div 2)]
JobCfg(j) == [local |-> "", prefix |-> IF j % 2 = 0 THEN "pkg" ELSE "", hints |-> <<>>,
              paths |-> [p \in {"x/d", "y/d", "z/d"} |-> [std |-> "", guess |-> "d", quoted |-> p]]]

VARIABLES pc, imps, counter, sched
vars == <<pc, imps, counter, sched>>
view == <<pc, imps, counter>>

Init == pc = [j \in Jobs |-> 1] /\ imps = [j \in Jobs |-> <<>>] /\ counter = 0 /\ sched = <<>>

\* the design under test: alias numbers come from the File's own table
RegOwn(j, p) == Reg(JobCfg(j), imps[j], p)[1]
\* the deviation: alias numbers come from a counter shared by all Files
RegShared(j, p) == IF Find(imps[j], p).name # "" THEN imps[j]
                   ELSE Put(imps[j], p, Def("d" \o ToString(counter), TRUE))
Step(j) == /\ pc[j] <= Steps
           /\ imps' = [imps EXCEPT ![j] = IF SharedCounter THEN RegShared(j, PathSeq(j)[pc[j]]) ELSE RegOwn(j, PathSeq(j)[pc[j]])]
           /\ counter' = IF SharedCounter /\ Find(imps[j], PathSeq(j)[pc[j]]).name = "" THEN counter + 1 ELSE counter
           /\ pc' = [pc EXCEPT ![j] = @ + 1]
           /\ sched' = Append(sched, j)
Next == \E j \in Jobs : Step(j)
Spec == Init /\ [][Next]_vars

RECURSIVE Solo(_, _, _)
Solo(j, i, t) == IF i > Steps THEN t ELSE Solo(j, i + 1, Reg(JobCfg(j), t, PathSeq(j)[i])[1])
\* names of a table (a shared counter yields other numbers even when run alone: compare the SET of outputs a job can produce)
Done == \A j \in Jobs : pc[j] > Steps
C09_Independent == Done => \A j \in Jobs : (IF SharedCounter THEN imps[j] = Solo(j, 1, <<>>) ELSE imps[j] = Solo(j, 1, <<>>))
OutFile == "schedules.ndjson"
Emit == Done => CSVWrite("%1$s", <<ToJson(sched)>>, OutFile)
=============================================================================
