----------------------------- MODULE MC_RegInd -----------------------------
(***************************************************************************)
(* C05 for UNBOUNDED histories, by induction, checked exhaustively by TLC: *)
(* the initial states are ALL import tables over the path universe and the *)
(* name pool that satisfy the invariant (whatever history produced them -  *)
(* reachable or not), combined with every hint for the path about to be    *)
(* registered and every prefix; the only step is ONE call of Jen!Reg.  If  *)
(* the invariant holds after the step, it is inductive: no sequence of     *)
(* register calls, however long and however interleaved with hints, can    *)
(* lead to two paths sharing a name or to a reserved name.  (Anon writes    *)
(* ("_", alias), which the invariant allows.)                              *)
(***************************************************************************)
EXTENDS Jen

CONSTANTS IPaths, IPathInfo, Pool, HintPool, PfxPool
VARIABLES imps, pth, hint, pfx, stepped
ivars == <<imps, pth, hint, pfx, stepped>>

Unique(t) == \A a, b \in DOMAIN t : (a # b /\ t[a].name = t[b].name) => t[a].name \in {"_", "."}
Legal(t)  == \A a \in DOMAIN t : t[a].name \in {"_", "."} \/ (t[a].name # "" /\ t[a].name \notin GoKeywords \cup GoUniverse)
Inv == Unique(imps) /\ Legal(imps)

Tables == UNION {[D -> [name : Pool, alias : BOOLEAN]] : D \in SUBSET IPaths}
IInit == /\ imps \in {t \in Tables : Unique(t) /\ Legal(t)}
         /\ pth \in IPaths
         /\ hint \in {None} \cup [name : HintPool, alias : BOOLEAN]
         /\ pfx \in PfxPool
         /\ stepped = FALSE
INext == /\ ~stepped /\ stepped' = TRUE
         /\ LET cfg == [local |-> "", prefix |-> pfx, hints |-> (IF hint = None THEN <<>> ELSE [x \in {pth} |-> hint]), paths |-> IPathInfo]
            IN imps' = Reg(cfg, imps, pth)[1]
         /\ UNCHANGED <<pth, hint, pfx>>
ISpec == IInit /\ [][INext]_ivars

IMaster == <<"fmt", "x/d", "x/go", "y/d", "z/d1">>
IInfo(std, guess, q) == [std |-> std, guess |-> guess, quoted |-> q]
MCIPathInfo ==
  [p \in {IMaster[i] : i \in DOMAIN IMaster} |->
     CASE p = "fmt"  -> IInfo("fmt", "fmt", "\"fmt\"")
       [] p = "x/d"  -> IInfo("", "d", "\"x/d\"")
       [] p = "x/go" -> IInfo("", "go", "\"x/go\"")
       [] p = "y/d"  -> IInfo("", "d", "\"y/d\"")
       [] p = "z/d1" -> IInfo("", "d1", "\"z/d1\"")]
=============================================================================
