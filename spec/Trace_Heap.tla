----------------------------- MODULE Trace_Heap -----------------------------
(***************************************************************************)
(* Trace validation for Statement heaps (C20): the recorded operations     *)
(* drive the actions of JenHeap; after every operation the real rendering  *)
(* of every live statement is compared with the model (DRIFT) and the      *)
(* C20 monitors are evaluated on the observation (agnostic between a view  *)
(* and a true copy as the meaning of Clone).                               *)
(***************************************************************************)
EXTENDS JenHeap

CONSTANTS TraceFile, VFile
Trace == ndJsonDeserialize(TraceFile)
VARIABLES l, tid, pf          \* position, trace id, previous observation (flats per cell)
tvars == <<vars, l, tid, pf>>
E == Trace[l]
Report(prop, key) == CSVWrite("%1$s", <<ToJson([prop |-> prop, trace |-> tid, line |-> l, key |-> key])>>, VFile)

TInit == Init /\ l = 1 /\ tid = 0 /\ pf = <<>>
Reset == /\ l <= Len(Trace) /\ E.op = "Reset" /\ l' = l + 1 /\ tid' = E.trace /\ pf' = <<>>
         /\ cells' = <<>> /\ arrays' = <<>> /\ own' = <<>> /\ parent' = <<>> /\ ntok' = 0 /\ nops' = 0 /\ hist' = <<>>
\* (in long histories only some statements are observed after each operation: the others carry the marker <<-2>>)
Seen(f, c) == c \in DOMAIN f /\ f[c] # <<-2>>
Mon ==
  LET fl == E.flats IN
  /\ \A c \in DOMAIN fl : (~E.light /\ Seen(fl, c) /\ c \in DOMAIN cells' /\ fl[c] # FlatNext(c)) => Report("DRIFT", "flat")   \* (long histories: monitors only)
  /\ Len(fl) # Len(cells') => Report("DRIFT", "cells")
  \* tokens appended to a statement are never lost, altered or reordered, nothing is duplicated
  /\ \A c \in DOMAIN fl : (Seen(fl, c) /\ c \in DOMAIN own' /\ ~(IsSubseq(own'[c], fl[c]) /\ NoDup(fl[c]))) => Report("C20", "tokens lost or reordered")
  \* an append changes only the statement appended to and its clones
  /\ \A c \in DOMAIN pf : (E.op = "App" /\ c # E.c /\ ~Ancestor(E.c, c) /\ Seen(fl, c) /\ Seen(pf, c) /\ fl[c] # pf[c])
                            => Report("C20", IF Ancestor(c, E.c) THEN "append to a clone changed its original" ELSE "append changed an unrelated statement")
  /\ (E.op = "App" /\ Seen(pf, E.c) /\ Seen(fl, E.c) /\ fl[E.c] # pf[E.c] \o TokIds(E.k)) => Report("C20", "appended tokens not at the end")
  \* a fresh clone renders like its original
  /\ (E.op = "Clone" /\ Len(fl) >= 1 /\ Seen(fl, E.c) /\ Seen(fl, Len(fl)) /\ fl[Len(fl)] # fl[E.c]) => Report("C20", "clone differs from original")
Op == /\ l <= Len(Trace) /\ E.op # "Reset" /\ l' = l + 1 /\ UNCHANGED tid
      /\ \/ E.op = "New" /\ New(E.k)
         \/ E.op = "App" /\ App(E.c, E.k)
         \/ E.op = "Clone" /\ Clone(E.c)
      /\ Mon = TRUE          \* (an equation: evaluated as one expression)
      /\ pf' = E.flats
\* a history during which the library killed the process (a statement that ends up containing itself overflows the
\* stack): the harness executes histories in child processes and records such a history as one event
CrashEv == /\ l <= Len(Trace) /\ E.op = "Crash" /\ l' = l + 1 /\ tid' = E.trace
           /\ CSVWrite("%1$s", <<ToJson([prop |-> "CRASH", trace |-> E.trace, line |-> l, key |-> "the library killed the process: " \o E.msg])>>, VFile)
           /\ UNCHANGED <<vars, pf>>
TNext == Reset \/ Op \/ CrashEv
TSpec == TInit /\ [][TNext]_tvars
Accepted == TLCGet("stats").diameter - 1 = Len(Trace)
=============================================================================
