SPECIFICATION Spec
CONSTANTS
  Legacy = {}
  Universe = "dicts"
  MaxArity = 3
INVARIANT Holds
CONSTRAINT Emit
CHECK_DEADLOCK FALSE
