SPECIFICATION Spec
CONSTANTS
  Legacy = {}
  Paths = {"x/d", "y/d", "fmt", "math/rand", "crypto/rand", "loc/al", "x/go", "z/d1"}
  PathInfo <- MCPathInfo
  Sorted <- MCSorted
  FilePool <- FileSettings
  NFiles = 2
  CmtPool <- CmtPoolSim
  MaxMeta = 2
  HintNames = {"d", "d1", ".", "q", "rand", "go", "pkg_d", ""}
  MaxCells = 5
  MaxOps = 14
  SysExport = TRUE
  MaxItems = 8
INVARIANTS Sys_Resolve Sys_Unique Sys_LocalDot Sys_Stable
PROPERTIES Sys_BoundNeverChanges Sys_FilesIndependent Sys_RenderPure Sys_PlainTouchesNoFile Sys_ContentsOnly
CHECK_DEADLOCK FALSE
