SPECIFICATION TSpec
CONSTANTS
  Legacy = {}
  Paths <- TPaths
  PathInfo <- TPathInfo
  Sorted <- TSorted
  FilePool = {}
  NFiles = 0
  HintNames = {}
  MaxCells = 100000
  MaxOps = 1000000
  SysExport = FALSE
  MaxItems = 100000
  CmtPool = {}
  MaxMeta = 100000
  TraceFile = "trace.ndjson"
  VFile = "viol.ndjson"
POSTCONDITION Accepted
CHECK_DEADLOCK FALSE
