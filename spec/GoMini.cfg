SPECIFICATION Spec
CONSTANTS
  Legacy = {}
INVARIANT Inv
CONSTRAINT Emit
CHECK_DEADLOCK FALSE
