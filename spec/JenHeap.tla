------------------------------ MODULE JenHeap ------------------------------
(***************************************************************************)
(* Object identity and mutation of Statements (C20, and the heap part of   *)
(* C08 / C14): a Statement is a cell holding a Go slice (array, len, cap)  *)
(* of items; an item is a token or a reference to another cell.  Every     *)
(* builder method appends IN PLACE through the pointer; Clone() returns a  *)
(* new cell whose only item is a reference to the original (a view).       *)
(* The refinement layer with (array, len, cap) is kept so that the tempting*)
(* "copy the slice header" design can be expressed and shown wrong         *)
(* (constant HeaderCopy, negative configuration).                          *)
(***************************************************************************)
EXTENDS Integers, Sequences, FiniteSets, TLC, Json, CSV

CONSTANTS MaxCells, MaxOps, MaxAppend, HeaderCopy

VARIABLES cells,   \* cell id -> [arr, len]                     (the Statement headers)
          arrays,  \* array id -> [cap, data]                   (backing arrays)
          own,     \* cell id -> tokens appended directly to the cell, in order
          parent,  \* cell id -> the cell it was cloned from (0 = none)
          ntok, nops, hist
vars == <<cells, arrays, own, parent, ntok, nops, hist>>
view == <<cells, arrays, own, parent, ntok, nops>>

Tok(i) == [t |-> "tok", id |-> i]
Ref(c) == [t |-> "ref", id |-> c]
RECURSIVE FlatSeq(_, _, _, _), FlatOf(_, _, _)
FlatOf(cs, ar, c) == FlatSeq(cs, ar, SubSeq(ar[cs[c].arr].data, 1, cs[c].len), <<>>)
FlatSeq(cs, ar, s, acc) == IF s = <<>> THEN acc
                   ELSE FlatSeq(cs, ar, Tail(s), IF Head(s).t = "tok" THEN Append(acc, Head(s).id) ELSE acc \o FlatOf(cs, ar, Head(s).id))
Flat(c)     == FlatOf(cells, arrays, c)
FlatNext(c) == FlatOf(cells', arrays', c)
\* Go's append growth for small slices (size classes ignored: any cap >= need is a legal implementation)
NewCap(old, need) == IF need > 2 * old THEN need ELSE 2 * old
AppendTo(c, xs) ==
  LET h == cells[c]  a == arrays[h.arr]  n == h.len + Len(xs) IN
  IF n <= a.cap
  THEN /\ arrays' = [arrays EXCEPT ![h.arr].data = SubSeq(a.data, 1, h.len) \o xs \o SubSeq(a.data, n + 1, Len(a.data))]
       /\ cells' = [cells EXCEPT ![c].len = n]
  ELSE /\ arrays' = Append(arrays, [cap |-> NewCap(a.cap, n), data |-> SubSeq(a.data, 1, h.len) \o xs])
       /\ cells' = [cells EXCEPT ![c] = [arr |-> Len(arrays) + 1, len |-> n]]

Init == cells = <<>> /\ arrays = <<>> /\ own = <<>> /\ parent = <<>> /\ ntok = 0 /\ nops = 0 /\ hist = <<>>
Step == nops < MaxOps /\ nops' = nops + 1
Toks(k) == [i \in 1..k |-> Tok(ntok + i)]
TokIds(k) == [i \in 1..k |-> ntok + i]
New(k) == /\ Step /\ Len(cells) < MaxCells
          /\ arrays' = Append(arrays, [cap |-> k, data |-> Toks(k)])
          /\ cells' = Append(cells, [arr |-> Len(arrays) + 1, len |-> k])
          /\ own' = Append(own, TokIds(k)) /\ parent' = Append(parent, 0) /\ ntok' = ntok + k
          /\ hist' = Append(hist, [op |-> "New", c |-> 0, k |-> k])
App(c, k) == /\ Step /\ AppendTo(c, Toks(k))
             /\ own' = [own EXCEPT ![c] = @ \o TokIds(k)] /\ ntok' = ntok + k /\ UNCHANGED parent
             /\ hist' = Append(hist, [op |-> "App", c |-> c, k |-> k])
Clone(c) == /\ Step /\ Len(cells) < MaxCells /\ UNCHANGED ntok
            /\ IF HeaderCopy
               THEN cells' = Append(cells, cells[c]) /\ UNCHANGED arrays
               ELSE /\ arrays' = Append(arrays, [cap |-> 1, data |-> <<Ref(c)>>])
                    /\ cells' = Append(cells, [arr |-> Len(arrays) + 1, len |-> 1])
            /\ own' = Append(own, <<>>) /\ parent' = Append(parent, c)
            /\ hist' = Append(hist, [op |-> "Clone", c |-> c, k |-> 0])
Next == \/ \E k \in 1..MaxAppend : New(k)
        \/ \E c \in DOMAIN cells, k \in 1..MaxAppend : App(c, k)
        \/ \E c \in DOMAIN cells : Clone(c)
Spec == Init /\ [][Next]_vars

(* ------------------------------ properties ------------------------------ *)
RECURSIVE Ancestor(_, _)
Ancestor(a, c) == c # 0 /\ (parent[c] = a \/ (parent[c] # 0 /\ Ancestor(a, parent[c])))   \* c is a (nested) clone of a
RECURSIVE Sub(_, _, _, _)
Sub(s, i, t, j) == IF i > Len(s) THEN TRUE ELSE IF j > Len(t) THEN FALSE
                   ELSE IF s[i] = t[j] THEN Sub(s, i + 1, t, j + 1) ELSE Sub(s, i, t, j + 1)
IsSubseq(s, t) == Sub(s, 1, t, 1)
NoDup(t) == Cardinality({t[i] : i \in DOMAIN t}) = Len(t)
\* tokens appended to a cell are never lost, altered or reordered
C20_OwnKept == \A c \in DOMAIN cells : IsSubseq(own[c], Flat(c)) /\ NoDup(Flat(c))
\* an unmodified clone renders like its original
\* (stated at the moment of cloning, so that both a view and a true copy satisfy it)
C20_CloneEqual == [][(hist' # hist /\ hist'[Len(hist')].op = "Clone")
                       => FlatNext(Len(cells')) = FlatNext(hist'[Len(hist')].c)]_vars
\* an append to t changes only t and the clones of t; in particular appends to a clone never change the original
C20_Isolation == [][\A c \in DOMAIN cells : \A t \in DOMAIN cells :
                      (hist' # hist /\ hist'[Len(hist')].op = "App" /\ hist'[Len(hist')].c = t /\ c # t /\ ~Ancestor(t, c))
                         => FlatNext(c) = Flat(c)]_vars
OutFile == "heap.ndjson"
Emit == (hist # <<>> /\ hist[Len(hist)].op # "New") => CSVWrite("%1$s", <<ToJson(hist)>>, OutFile)
=============================================================================
