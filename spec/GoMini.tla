------------------------------- MODULE GoMini -------------------------------
(***************************************************************************)
(* C01 on the model: a mini Go abstract syntax, the documented translation *)
(* T from syntax to DSL Code (DESIGN.md appendix A), and an INDEPENDENT    *)
(* unparser that writes the token stream of the program straight from the  *)
(* Go grammar.  TLC checks for every mini-AST of the bounded universe that *)
(*      Lex(Jen!R(T(ast))) = Unparse(ast)                                  *)
(* i.e. what jennifer's rendering semantics produces for the documented    *)
(* construction IS the program (newline => automatic semicolon insertion   *)
(* is part of Lex, so multi-line groups are checked for real).             *)
(***************************************************************************)
EXTENDS Jen, Json, CSV

Nil == NilC
Empty == EmptyT
Cfg0 == [local |-> "", prefix |-> "", hints |-> <<>>, paths |-> <<>>]
Render(c, prev) == R(Cfg0, c, prev, <<>>)[1]

(* ---------- Lex: pieces -> Go tokens with automatic semicolon insertion ---------- *)
Idents == {"a", "b", "f", "L"}
Lits   == {"1"}
Terminator(t) == t \in Idents \cup Lits \cup {")", "]", "}", "return", "break", "continue", "fallthrough", "++", "--"}
RECURSIVE LexR(_, _, _)
LexR(ps, i, acc) ==
  IF i > Len(ps) THEN acc
  ELSE LET p == ps[i] IN
       IF p.c \in {"sp", "dk"} THEN LexR(ps, i + 1, acc)
       ELSE IF p.c = "nl" THEN LexR(ps, i + 1, IF acc # <<>> /\ Terminator(Last(acc)) THEN Append(acc, ";") ELSE acc)
       ELSE LexR(ps, i + 1, Append(acc, p.s))
\* Go lets a ";" be omitted before ")" and "}" and at the very end: normalise those away
RECURSIVE Norm(_, _, _)
Norm(ts, i, acc) ==
  IF i > Len(ts) THEN acc
  ELSE IF ts[i] = ";" /\ (i = Len(ts) \/ ts[i+1] \in {"}", ")"}) THEN Norm(ts, i + 1, acc)
  ELSE Norm(ts, i + 1, Append(acc, ts[i]))
Lex(ps) == LET ts == LexR(ps, 1, <<>>) IN Norm(ts, 1, <<>>)

(* ---------- GoMini abstract syntax ---------- *)
\* expressions
EId(n)        == [n |-> "Ident", name |-> n]
ELit(v)       == [n |-> "Lit", v |-> v]
EBin(x, o, y) == [n |-> "Binary", x |-> x, op |-> o, y |-> y]
ECall(f, as)  == [n |-> "Call", f |-> f, args |-> as]
EIdx(x, i)    == [n |-> "Index", x |-> x, i |-> i]
ESlice(x, lo, hi, mx) == [n |-> "Slice", x |-> x, lo |-> lo, hi |-> hi, max |-> mx]   \* Nil for absent
EParen(x)     == [n |-> "Paren", x |-> x]
\* statements
SAssign(l, o, r) == [n |-> "Assign", lhs |-> l, op |-> o, rhs |-> r]
SExpr(x)      == [n |-> "ExprStmt", x |-> x]
SInc(x)       == [n |-> "IncDec", x |-> x, op |-> "++"]
SRet(rs)      == [n |-> "Return", results |-> rs]
SBlock(ss)    == [n |-> "Block", list |-> ss]
SIf(i, c, b, e) == [n |-> "If", init |-> i, cond |-> c, body |-> b, els |-> e]
SFor(i, c, p, b) == [n |-> "For", init |-> i, cond |-> c, post |-> p, body |-> b]
SSwitch(t, cs) == [n |-> "Switch", tag |-> t, clauses |-> cs]
Clause(es, b) == [n |-> "Clause", list |-> es, body |-> b]            \* es = <<>> means default
SLabel(l, s)  == [n |-> "Labeled", label |-> l, stmt |-> s]            \* s = Nil: label before "}"
SBranch(w)    == [n |-> "Branch", tok |-> w]

IsNilNode(x) == "k" \in DOMAIN x

(* ---------- Unparse: the Go grammar, independent of jennifer ---------- *)
RECURSIVE UE(_), UEs(_, _), US(_), USs(_), UCs(_)
UEs(es, sep) == IF es = <<>> THEN <<>> ELSE IF Len(es) = 1 THEN UE(es[1]) ELSE UE(es[1]) \o <<sep>> \o UEs(Tail(es), sep)
UE(e) == CASE e.n = "Ident" -> <<e.name>>
           [] e.n = "Lit" -> <<e.v>>
           [] e.n = "Binary" -> UE(e.x) \o <<e.op>> \o UE(e.y)
           [] e.n = "Call" -> UE(e.f) \o <<"(">> \o UEs(e.args, ",") \o <<")">>
           [] e.n = "Index" -> UE(e.x) \o <<"[">> \o UE(e.i) \o <<"]">>
           [] e.n = "Slice" -> UE(e.x) \o <<"[">> \o (IF IsNilNode(e.lo) THEN <<>> ELSE UE(e.lo)) \o <<":">>
                                \o (IF IsNilNode(e.hi) THEN <<>> ELSE UE(e.hi))
                                \o (IF IsNilNode(e.max) THEN <<>> ELSE <<":">> \o UE(e.max)) \o <<"]">>
           [] e.n = "Paren" -> <<"(">> \o UE(e.x) \o <<")">>
USs(ss) == IF ss = <<>> THEN <<>> ELSE IF Len(ss) = 1 THEN US(ss[1]) ELSE US(ss[1]) \o <<";">> \o USs(Tail(ss))
UBlock(ss) == <<"{">> \o USs(ss) \o <<"}">>
RECURSIVE USsemi(_)
USsemi(ss) == IF ss = <<>> THEN <<>> ELSE US(ss[1]) \o <<";">> \o USsemi(Tail(ss))
UCs(cs) == IF cs = <<>> THEN <<>> ELSE
   LET c == cs[1]
       one == (IF c.list = <<>> THEN <<"default", ":">> ELSE <<"case">> \o UEs(c.list, ",") \o <<":">>) \o USsemi(c.body)
   IN one \o UCs(Tail(cs))
US(s) == CASE s.n = "Assign" -> UEs(s.lhs, ",") \o <<s.op>> \o UEs(s.rhs, ",")
           [] s.n = "ExprStmt" -> UE(s.x)
           [] s.n = "IncDec" -> UE(s.x) \o <<s.op>>
           [] s.n = "Return" -> <<"return">> \o UEs(s.results, ",")
           [] s.n = "Block" -> UBlock(s.list)
           [] s.n = "Branch" -> <<s.tok>>
           [] s.n = "Labeled" -> <<s.label, ":">> \o (IF IsNilNode(s.stmt) THEN <<>> ELSE US(s.stmt))
           [] s.n = "If" -> <<"if">> \o (IF IsNilNode(s.init) THEN <<>> ELSE US(s.init) \o <<";">>) \o UE(s.cond) \o UBlock(s.body)
                            \o (IF IsNilNode(s.els) THEN <<>> ELSE <<"else">> \o US(s.els))
           [] s.n = "For" -> <<"for">> \o (IF IsNilNode(s.init) /\ IsNilNode(s.post)
                                          THEN (IF IsNilNode(s.cond) THEN <<>> ELSE UE(s.cond))
                                          ELSE (IF IsNilNode(s.init) THEN <<>> ELSE US(s.init)) \o <<";">>
                                               \o (IF IsNilNode(s.cond) THEN <<>> ELSE UE(s.cond)) \o <<";">>
                                               \o (IF IsNilNode(s.post) THEN <<>> ELSE US(s.post))) \o UBlock(s.body)
           [] s.n = "Switch" -> <<"switch">> \o (IF IsNilNode(s.tag) THEN <<>> ELSE UE(s.tag)) \o <<"{">> \o UCs(s.clauses) \o <<"}">>

(* ---------- T: the documented DSL element for each construct (Appendix A) ---------- *)
RECURSIVE TE(_), TEs(_), TS(_), TSs(_), TCs(_)
TEs(es) == [i \in DOMAIN es |-> TE(es[i])]
One(items) == IF Len(items) = 1 THEN items[1] ELSE Stmt(<<Grp("list", items)>>)
TE(e) == CASE e.n = "Ident" -> Stmt(<<Id(e.name)>>)
           [] e.n = "Lit" -> Stmt(<<Tok("lit", e.v)>>)
           [] e.n = "Binary" -> Stmt(<<TE(e.x), Op(e.op), TE(e.y)>>)
           [] e.n = "Call" -> Stmt(<<TE(e.f), Grp("call", TEs(e.args))>>)
           [] e.n = "Index" -> Stmt(<<TE(e.x), Grp("index", <<TE(e.i)>>)>>)
           [] e.n = "Slice" -> Stmt(<<TE(e.x), Grp("index",
                                  <<IF IsNilNode(e.lo) THEN Stmt(<<Empty>>) ELSE TE(e.lo),
                                    IF IsNilNode(e.hi) THEN Stmt(<<Empty>>) ELSE TE(e.hi)>>
                                  \o (IF IsNilNode(e.max) THEN <<>> ELSE <<TE(e.max)>>))>>)
           [] e.n = "Paren" -> Stmt(<<Grp("parens", <<TE(e.x)>>)>>)
TSs(ss) == [i \in DOMAIN ss |-> TS(ss[i])]
TCs(cs) == [i \in DOMAIN cs |->
             IF cs[i].list = <<>> THEN Stmt(<<Kw("default"), Grp("block", TSs(cs[i].body))>>)
             ELSE Stmt(<<Grp("case", TEs(cs[i].list)), Grp("block", TSs(cs[i].body))>>)]
TS(s) == CASE s.n = "Assign" -> Stmt(<<One(TEs(s.lhs)), Op(s.op), One(TEs(s.rhs))>>)
           [] s.n = "ExprStmt" -> TE(s.x)
           [] s.n = "IncDec" -> Stmt(<<TE(s.x), Op(s.op)>>)
           [] s.n = "Return" -> Stmt(<<Grp("return", TEs(s.results))>>)
           [] s.n = "Block" -> Stmt(<<Grp("block", TSs(s.list))>>)
           [] s.n = "Branch" -> Stmt(<<Kw(s.tok)>>)
           [] s.n = "Labeled" -> Stmt(<<Id(s.label), Op(":")>> \o (IF IsNilNode(s.stmt) THEN <<>> ELSE <<TS(s.stmt)>>))
           [] s.n = "If" -> Stmt(<<Grp("if", (IF IsNilNode(s.init) THEN <<>> ELSE <<TS(s.init)>>) \o <<TE(s.cond)>>), Grp("block", TSs(s.body))>>
                                 \o (IF IsNilNode(s.els) THEN <<>> ELSE <<Kw("else"), TS(s.els)>>))
           [] s.n = "For" -> Stmt(<<Grp("for", IF IsNilNode(s.init) /\ IsNilNode(s.post)
                                                THEN (IF IsNilNode(s.cond) THEN <<>> ELSE <<TE(s.cond)>>)
                                                ELSE << IF IsNilNode(s.init) THEN Stmt(<<Empty>>) ELSE TS(s.init),
                                                        IF IsNilNode(s.cond) THEN Stmt(<<Empty>>) ELSE TE(s.cond),
                                                        IF IsNilNode(s.post) THEN Stmt(<<Empty>>) ELSE TS(s.post) >>),
                                    Grp("block", TSs(s.body))>>)
           [] s.n = "Switch" -> Stmt(<<Grp("switch", IF IsNilNode(s.tag) THEN <<>> ELSE <<TE(s.tag)>>), Grp("block", TCs(s.clauses))>>)

(* ---------- bounded universe ---------- *)
Atoms == {EId("a"), EId("b"), ELit("1")}
E1 == Atoms \cup {EBin(x, "+", y) : x, y \in Atoms} \cup {EParen(x) : x \in Atoms}
         \cup {ECall(EId("f"), as) : as \in UNION {[1..n -> Atoms] : n \in 0..3}}
         \cup {EIdx(EId("a"), x) : x \in Atoms}
         \cup {ESlice(EId("a"), lo, hi, Nil) : lo, hi \in {Nil, ELit("1")}}
         \cup {ESlice(EId("a"), lo, ELit("1"), EId("b")) : lo \in {Nil, ELit("1")}}
Simple == {SAssign(<<EId("a")>>, ":=", <<x>>) : x \in E1}
          \cup {SAssign(<<EId("a"), EId("b")>>, "=", <<EId("b"), x>>) : x \in Atoms}
          \cup {SExpr(ECall(EId("f"), <<>>)), SInc(EId("a")), SBranch("break"), SBranch("fallthrough")}
          \cup {SRet(rs) : rs \in UNION {[1..n -> Atoms] : n \in 0..2}}
Bodies == {<<>>} \cup {<<s>> : s \in {SInc(EId("a")), SRet(<<>>), SBranch("break"), SLabel("L", Nil)}}
              \cup {<<SInc(EId("a")), s>> : s \in {SRet(<<EId("b")>>), SLabel("L", Nil), SExpr(ECall(EId("f"), <<>>))}}
Inits == {Nil, SAssign(<<EId("a")>>, ":=", <<ELit("1")>>)}
Conds == {EId("b"), EBin(EId("a"), "<", ELit("1"))}
ClauseBodies == {b \in Bodies : b = <<>> \/ b[Len(b)].n # "Labeled"}
Clauses == {Clause(es, b) : es \in {<<>>, <<ELit("1")>>, <<ELit("1"), EId("b")>>}, b \in ClauseBodies}
Compound0 == {SIf(i, c, b, Nil) : i \in Inits, c \in Conds, b \in Bodies}
             \cup {SFor(i, c, p, b) : i \in Inits, c \in {Nil} \cup Conds, p \in {Nil, SInc(EId("a"))}, b \in Bodies}
             \cup {SBlock(b) : b \in Bodies}
             \cup {SLabel("L", s) : s \in {SInc(EId("a")), SFor(Nil, Nil, Nil, <<>>)}}
Compound1 == {SIf(Nil, EId("b"), b, e) : b \in Bodies, e \in {SBlock(b2) : b2 \in Bodies} \cup {SIf(Nil, EId("a"), <<>>, Nil)}}
             \cup {SSwitch(t, cs) : t \in {Nil, EId("a")}, cs \in UNION {[1..n -> Clauses] : n \in 0..2}}
             \cup {SFor(Nil, EId("b"), Nil, <<s>>) : s \in Compound0}
Cases == Simple \cup Compound0 \cup Compound1

Faithful(s) == Lex(Render(TS(s), Nil)) = Norm(US(s), 1, <<>>)

VARIABLE c
Init == c \in Cases
Next == UNCHANGED c
Spec == Init /\ [][Next]_c
Inv == Faithful(c)
OutFile == "gomini.ndjson"
Emit == CSVWrite("%1$s", <<ToJson([kind |-> "gomini", tree |-> TS(c), toks |-> Norm(US(c), 1, <<>>)])>>, OutFile)
=============================================================================
