------------------------------- MODULE GoMini -------------------------------
(***************************************************************************)
(* C01 on the model: a mini Go abstract syntax, the documented translation *)
(* T from syntax to DSL Code (DESIGN.md appendix A), and an INDEPENDENT    *)
(* unparser that writes the token stream of the program straight from the  *)
(* Go grammar.  TLC checks for every mini-AST of the bounded universe that *)
(*      Lex(Jen!R(T(ast))) = Unparse(ast)                                  *)
(* i.e. what jennifer's rendering semantics produces for the documented    *)
(* construction IS the program (newline => automatic semicolon insertion   *)
(* is part of Lex, so multi-line groups are checked for real).             *)
(***************************************************************************)
EXTENDS Jen, Json, CSV

Nil == NilC
Empty == EmptyT
Cfg0 == [local |-> "", prefix |-> "", hints |-> <<>>, paths |-> <<>>]
Render(c, prev) == R(Cfg0, c, prev, <<>>)[1]

(* ---------- Lex: pieces -> Go tokens with automatic semicolon insertion ---------- *)
Idents == {"a", "b", "f", "L", "T", "x", "m", "int", "any", "_"}
Lits   == {"1"}
Terminator(t) == t \in Idents \cup Lits \cup {")", "]", "}", "return", "break", "continue", "fallthrough", "++", "--"}
RECURSIVE LexR(_, _, _)
LexR(ps, i, acc) ==
  IF i > Len(ps) THEN acc
  ELSE LET p == ps[i] IN
       IF p.c \in {"sp", "dk"} THEN LexR(ps, i + 1, acc)
       ELSE IF p.c = "nl" THEN LexR(ps, i + 1, IF acc # <<>> /\ Terminator(Last(acc)) THEN Append(acc, ";") ELSE acc)
       ELSE LexR(ps, i + 1, Append(acc, p.s))
\* Go lets a ";" be omitted before ")" and "}" and at the very end: normalise those away
RECURSIVE Norm(_, _, _)
Norm(ts, i, acc) ==
  IF i > Len(ts) THEN acc
  ELSE IF ts[i] = ";" /\ (i = Len(ts) \/ ts[i+1] \in {"}", ")"}) THEN Norm(ts, i + 1, acc)
  \* a comma may be written before a closing brace / parenthesis that stands on a new line (a multi-line Dict does so)
  ELSE IF ts[i] = "," /\ i < Len(ts) /\ ts[i+1] \in {"}", ")"} THEN Norm(ts, i + 1, acc)
  ELSE Norm(ts, i + 1, Append(acc, ts[i]))
Lex(ps) == LET ts == LexR(ps, 1, <<>>) IN Norm(ts, 1, <<>>)

(* ---------- GoMini abstract syntax ---------- *)
\* expressions
EId(n)        == [n |-> "Ident", name |-> n]
ELit(v)       == [n |-> "Lit", v |-> v]
EBin(x, o, y) == [n |-> "Binary", x |-> x, op |-> o, y |-> y]
ECall(f, as)  == [n |-> "Call", f |-> f, args |-> as]
EIdx(x, i)    == [n |-> "Index", x |-> x, i |-> i]
ESlice(x, lo, hi, mx) == [n |-> "Slice", x |-> x, lo |-> lo, hi |-> hi, max |-> mx]   \* Nil for absent
EParen(x)     == [n |-> "Paren", x |-> x]
EUn(o, x)     == [n |-> "Unary", op |-> o, x |-> x]
ESel(x, sel)  == [n |-> "Selector", x |-> x, sel |-> sel]
EAssert(x, t) == [n |-> "Assert", x |-> x, typ |-> t]                  \* t = Nil: the x.(type) of a type switch
EComp(t, es)  == [n |-> "Composite", typ |-> t, elts |-> es]
EKV(t, ks, vs) == [n |-> "CompositeKV", typ |-> t, keys |-> ks, vals |-> vs]   \* keys in the order of their texts
EFunc(ps, r, b) == [n |-> "FuncLit", params |-> ps, result |-> r, body |-> b]  \* ps: <<name, type>>..., r: Nil or a type
\* types (expressions as well)
TStar(t)      == [n |-> "Star", x |-> t]
TArr(l, t)    == [n |-> "Array", len |-> l, elt |-> t]                  \* l = Nil: slice
TMap(k, v)    == [n |-> "Map", key |-> k, val |-> v]
TChan(t)      == [n |-> "Chan", elt |-> t]
TStruct(fs)   == [n |-> "Struct", fields |-> fs]                        \* fs: <<name, type>>...
TIface(ms)    == [n |-> "Interface", methods |-> ms]                    \* ms: <<name, params, result>>...
\* statements
SRange(k, v, x, b) == [n |-> "Range", key |-> k, val |-> v, x |-> x, body |-> b]
SGo(w, c)     == [n |-> "GoDefer", tok |-> w, call |-> c]
SGoto(l)      == [n |-> "Goto", label |-> l]
SSend(c, v)   == [n |-> "Send", ch |-> c, val |-> v]
STypeSwitch(b, x, cs) == [n |-> "TypeSwitch", bind |-> b, x |-> x, clauses |-> cs]
SSelect(cs)   == [n |-> "Select", clauses |-> cs]                       \* clause list = <<comm stmt>> or <<>> (default)
\* declarations
DVar(w, nm, t, v) == [n |-> "VarDecl", tok |-> w, name |-> nm, typ |-> t, val |-> v]      \* w: var | const; t, v may be Nil
DGroup(w, specs)  == [n |-> "DeclGroup", tok |-> w, specs |-> specs]                      \* specs: <<name, value or Nil>>...
DType(nm, tps, t) == [n |-> "TypeDecl", name |-> nm, tparams |-> tps, typ |-> t]          \* tps: <<name, constraint>>...
DFunc(recv, nm, tps, ps, r, b) == [n |-> "FuncDecl", recv |-> recv, name |-> nm, tparams |-> tps, params |-> ps, result |-> r, body |-> b]
SAssign(l, o, r) == [n |-> "Assign", lhs |-> l, op |-> o, rhs |-> r]
SExpr(x)      == [n |-> "ExprStmt", x |-> x]
SInc(x)       == [n |-> "IncDec", x |-> x, op |-> "++"]
SRet(rs)      == [n |-> "Return", results |-> rs]
SBlock(ss)    == [n |-> "Block", list |-> ss]
SIf(i, c, b, e) == [n |-> "If", init |-> i, cond |-> c, body |-> b, els |-> e]
SFor(i, c, p, b) == [n |-> "For", init |-> i, cond |-> c, post |-> p, body |-> b]
SSwitch(t, cs) == [n |-> "Switch", tag |-> t, clauses |-> cs]
Clause(es, b) == [n |-> "Clause", list |-> es, body |-> b]            \* es = <<>> means default
SLabel(l, s)  == [n |-> "Labeled", label |-> l, stmt |-> s]            \* s = Nil: label before "}"
SBranch(w)    == [n |-> "Branch", tok |-> w]

IsNilNode(x) == "k" \in DOMAIN x

(* ---------- Unparse: the Go grammar, independent of jennifer ---------- *)
RECURSIVE UE(_), UEs(_, _), US(_), USs(_), UCs(_), UParams(_), UFields(_), UMethods(_), UKVs(_, _), UTCs(_), UComm(_), UTParams(_), USpecs(_)
UBlock(ss) == <<"{">> \o USs(ss) \o <<"}">>
UParams(ps) == IF ps = <<>> THEN <<>> ELSE <<ps[1][1]>> \o UE(ps[1][2]) \o (IF Len(ps) > 1 THEN <<",">> \o UParams(Tail(ps)) ELSE <<>>)
UFields(fs) == IF fs = <<>> THEN <<>> ELSE <<fs[1][1]>> \o UE(fs[1][2]) \o (IF Len(fs) > 1 THEN <<";">> \o UFields(Tail(fs)) ELSE <<>>)
UMethods(ms) == IF ms = <<>> THEN <<>> ELSE <<ms[1][1], "(">> \o UParams(ms[1][2]) \o <<")">> \o (IF IsNilNode(ms[1][3]) THEN <<>> ELSE UE(ms[1][3]))
                  \o (IF Len(ms) > 1 THEN <<";">> \o UMethods(Tail(ms)) ELSE <<>>)
UKVs(ks, vs) == IF ks = <<>> THEN <<>> ELSE UE(ks[1]) \o <<":">> \o UE(vs[1]) \o (IF Len(ks) > 1 THEN <<",">> \o UKVs(Tail(ks), Tail(vs)) ELSE <<>>)
UTParams(tps) == IF tps = <<>> THEN <<>> ELSE <<"[">> \o UParams(tps) \o <<"]">>
USpecs(sp) == IF sp = <<>> THEN <<>> ELSE <<sp[1][1]>> \o (IF IsNilNode(sp[1][2]) THEN <<>> ELSE <<"=">> \o UE(sp[1][2]))
                  \o (IF Len(sp) > 1 THEN <<";">> \o USpecs(Tail(sp)) ELSE <<>>)
UEs(es, sep) == IF es = <<>> THEN <<>> ELSE IF Len(es) = 1 THEN UE(es[1]) ELSE UE(es[1]) \o <<sep>> \o UEs(Tail(es), sep)
UE(e) == CASE e.n = "Ident" -> <<e.name>>
           [] e.n = "Lit" -> <<e.v>>
           [] e.n = "Binary" -> UE(e.x) \o <<e.op>> \o UE(e.y)
           [] e.n = "Call" -> UE(e.f) \o <<"(">> \o UEs(e.args, ",") \o <<")">>
           [] e.n = "Index" -> UE(e.x) \o <<"[">> \o UE(e.i) \o <<"]">>
           [] e.n = "Slice" -> UE(e.x) \o <<"[">> \o (IF IsNilNode(e.lo) THEN <<>> ELSE UE(e.lo)) \o <<":">>
                                \o (IF IsNilNode(e.hi) THEN <<>> ELSE UE(e.hi))
                                \o (IF IsNilNode(e.max) THEN <<>> ELSE <<":">> \o UE(e.max)) \o <<"]">>
           [] e.n = "Paren" -> <<"(">> \o UE(e.x) \o <<")">>
           [] e.n = "Unary" -> <<e.op>> \o UE(e.x)
           [] e.n = "Selector" -> UE(e.x) \o <<".", e.sel>>
           [] e.n = "Assert" -> UE(e.x) \o <<".", "(">> \o (IF IsNilNode(e.typ) THEN <<"type">> ELSE UE(e.typ)) \o <<")">>
           [] e.n = "Composite" -> UE(e.typ) \o <<"{">> \o UEs(e.elts, ",") \o <<"}">>
           [] e.n = "CompositeKV" -> UE(e.typ) \o <<"{">> \o UKVs(e.keys, e.vals) \o <<"}">>
           [] e.n = "FuncLit" -> <<"func", "(">> \o UParams(e.params) \o <<")">> \o (IF IsNilNode(e.result) THEN <<>> ELSE UE(e.result)) \o UBlock(e.body)
           [] e.n = "Star" -> <<"*">> \o UE(e.x)
           [] e.n = "Array" -> <<"[">> \o (IF IsNilNode(e.len) THEN <<>> ELSE UE(e.len)) \o <<"]">> \o UE(e.elt)
           [] e.n = "Map" -> <<"map", "[">> \o UE(e.key) \o <<"]">> \o UE(e.val)
           [] e.n = "Chan" -> <<"chan">> \o UE(e.elt)
           [] e.n = "Struct" -> <<"struct", "{">> \o UFields(e.fields) \o <<"}">>
           [] e.n = "Interface" -> <<"interface", "{">> \o UMethods(e.methods) \o <<"}">>
USs(ss) == IF ss = <<>> THEN <<>> ELSE IF Len(ss) = 1 THEN US(ss[1]) ELSE US(ss[1]) \o <<";">> \o USs(Tail(ss))
RECURSIVE USsemi(_)
USsemi(ss) == IF ss = <<>> THEN <<>> ELSE US(ss[1]) \o <<";">> \o USsemi(Tail(ss))
\* type switch clauses (list of types; <<>> = default) and communication clauses (<<stmt>>; <<>> = default)
UTCs(cs) == IF cs = <<>> THEN <<>> ELSE
   (IF cs[1].list = <<>> THEN <<"default", ":">> ELSE <<"case">> \o UEs(cs[1].list, ",") \o <<":">>) \o USsemi(cs[1].body) \o UTCs(Tail(cs))
UComm(cs) == IF cs = <<>> THEN <<>> ELSE
   (IF cs[1].list = <<>> THEN <<"default", ":">> ELSE <<"case">> \o US(cs[1].list[1]) \o <<":">>) \o USsemi(cs[1].body) \o UComm(Tail(cs))
UCs(cs) == IF cs = <<>> THEN <<>> ELSE
   LET c == cs[1]
       one == (IF c.list = <<>> THEN <<"default", ":">> ELSE <<"case">> \o UEs(c.list, ",") \o <<":">>) \o USsemi(c.body)
   IN one \o UCs(Tail(cs))
US(s) == CASE s.n = "Assign" -> UEs(s.lhs, ",") \o <<s.op>> \o UEs(s.rhs, ",")
           [] s.n = "ExprStmt" -> UE(s.x)
           [] s.n = "IncDec" -> UE(s.x) \o <<s.op>>
           [] s.n = "Return" -> <<"return">> \o UEs(s.results, ",")
           [] s.n = "Block" -> UBlock(s.list)
           [] s.n = "Branch" -> <<s.tok>>
           [] s.n = "Labeled" -> <<s.label, ":">> \o (IF IsNilNode(s.stmt) THEN <<>> ELSE US(s.stmt))
           [] s.n = "If" -> <<"if">> \o (IF IsNilNode(s.init) THEN <<>> ELSE US(s.init) \o <<";">>) \o UE(s.cond) \o UBlock(s.body)
                            \o (IF IsNilNode(s.els) THEN <<>> ELSE <<"else">> \o US(s.els))
           [] s.n = "For" -> <<"for">> \o (IF IsNilNode(s.init) /\ IsNilNode(s.post)
                                          THEN (IF IsNilNode(s.cond) THEN <<>> ELSE UE(s.cond))
                                          ELSE (IF IsNilNode(s.init) THEN <<>> ELSE US(s.init)) \o <<";">>
                                               \o (IF IsNilNode(s.cond) THEN <<>> ELSE UE(s.cond)) \o <<";">>
                                               \o (IF IsNilNode(s.post) THEN <<>> ELSE US(s.post))) \o UBlock(s.body)
           [] s.n = "Switch" -> <<"switch">> \o (IF IsNilNode(s.tag) THEN <<>> ELSE UE(s.tag)) \o <<"{">> \o UCs(s.clauses) \o <<"}">>
           [] s.n = "Range" -> <<"for", s.key>> \o (IF s.val = "" THEN <<>> ELSE <<",", s.val>>) \o <<":=", "range">> \o UE(s.x) \o UBlock(s.body)
           [] s.n = "GoDefer" -> <<s.tok>> \o UE(s.call)
           [] s.n = "Goto" -> <<"goto", s.label>>
           [] s.n = "Send" -> UE(s.ch) \o <<"<-">> \o UE(s.val)
           [] s.n = "TypeSwitch" -> <<"switch">> \o (IF s.bind = "" THEN <<>> ELSE <<s.bind, ":=">>) \o UE(EAssert(s.x, Nil)) \o <<"{">> \o UTCs(s.clauses) \o <<"}">>
           [] s.n = "Select" -> <<"select", "{">> \o UComm(s.clauses) \o <<"}">>
           [] s.n = "VarDecl" -> <<s.tok, s.name>> \o (IF IsNilNode(s.typ) THEN <<>> ELSE UE(s.typ)) \o (IF IsNilNode(s.val) THEN <<>> ELSE <<"=">> \o UE(s.val))
           [] s.n = "DeclGroup" -> <<s.tok, "(">> \o USpecs(s.specs) \o <<")">>
           [] s.n = "TypeDecl" -> <<"type", s.name>> \o UTParams(s.tparams) \o UE(s.typ)
           [] s.n = "FuncDecl" -> <<"func">> \o (IF s.recv = <<>> THEN <<>> ELSE <<"(">> \o UParams(s.recv) \o <<")">>) \o <<s.name>> \o UTParams(s.tparams)
                                  \o <<"(">> \o UParams(s.params) \o <<")">> \o (IF IsNilNode(s.result) THEN <<>> ELSE UE(s.result))
                                  \o (IF IsNilNode(s.body) THEN <<>> ELSE UBlock(s.body.list))

(* ---------- T: the documented DSL element for each construct (Appendix A) ---------- *)
RECURSIVE TE(_), TEs(_), TS(_), TSs(_), TCs(_), TParams(_), TTCs(_), TComm(_)
TParams(ps) == [i \in DOMAIN ps |-> Stmt(<<Id(ps[i][1]), TE(ps[i][2])>>)]
TEs(es) == [i \in DOMAIN es |-> TE(es[i])]
One(items) == IF Len(items) = 1 THEN items[1] ELSE Stmt(<<Grp("list", items)>>)
TE(e) == CASE e.n = "Ident" -> Stmt(<<Id(e.name)>>)
           [] e.n = "Lit" -> Stmt(<<Tok("lit", e.v)>>)
           [] e.n = "Binary" -> Stmt(<<TE(e.x), Op(e.op), TE(e.y)>>)
           [] e.n = "Call" -> Stmt(<<TE(e.f), Grp("call", TEs(e.args))>>)
           [] e.n = "Index" -> Stmt(<<TE(e.x), Grp("index", <<TE(e.i)>>)>>)
           [] e.n = "Slice" -> Stmt(<<TE(e.x), Grp("index",
                                  <<IF IsNilNode(e.lo) THEN Stmt(<<Empty>>) ELSE TE(e.lo),
                                    IF IsNilNode(e.hi) THEN Stmt(<<Empty>>) ELSE TE(e.hi)>>
                                  \o (IF IsNilNode(e.max) THEN <<>> ELSE <<TE(e.max)>>))>>)
           [] e.n = "Paren" -> Stmt(<<Grp("parens", <<TE(e.x)>>)>>)
           [] e.n = "Unary" -> Stmt(<<Op(e.op), TE(e.x)>>)
           [] e.n = "Selector" -> Stmt(<<TE(e.x), Op("."), Id(e.sel)>>)                   \* x.Dot(sel)
           [] e.n = "Assert" -> Stmt(<<TE(e.x), Grp("assert", <<IF IsNilNode(e.typ) THEN Stmt(<<Kw("type")>>) ELSE TE(e.typ)>>)>>)
           [] e.n = "Composite" -> Stmt(<<TE(e.typ), Grp("values", TEs(e.elts))>>)
           [] e.n = "CompositeKV" -> Stmt(<<TE(e.typ), Grp("values", <<Dict([i \in DOMAIN e.keys |-> Pair(TE(e.keys[i]), TE(e.vals[i]))],
                                                                               [i \in DOMAIN e.keys |-> i])>>)>>)
           [] e.n = "FuncLit" -> Stmt(<<Kw("func"), Grp("params", TParams(e.params))>> \o (IF IsNilNode(e.result) THEN <<>> ELSE <<TE(e.result)>>)
                                      \o <<Grp("block", TSs(e.body))>>)
           [] e.n = "Star" -> Stmt(<<Op("*"), TE(e.x)>>)
           [] e.n = "Array" -> Stmt(<<Grp("index", IF IsNilNode(e.len) THEN <<>> ELSE <<TE(e.len)>>), TE(e.elt)>>)
           [] e.n = "Map" -> Stmt(<<Grp("map", <<TE(e.key)>>), TE(e.val)>>)
           [] e.n = "Chan" -> Stmt(<<Kw("chan"), TE(e.elt)>>)
           [] e.n = "Struct" -> Stmt(<<Grp("struct", TParams(e.fields))>>)
           [] e.n = "Interface" -> Stmt(<<Grp("interface", [i \in DOMAIN e.methods |->
                                     Stmt(<<Id(e.methods[i][1]), Grp("params", TParams(e.methods[i][2]))>>
                                          \o (IF IsNilNode(e.methods[i][3]) THEN <<>> ELSE <<TE(e.methods[i][3])>>))])>>)
TTCs(cs) == [i \in DOMAIN cs |->
             IF cs[i].list = <<>> THEN Stmt(<<Kw("default"), Grp("block", TSs(cs[i].body))>>)
             ELSE Stmt(<<Grp("case", TEs(cs[i].list)), Grp("block", TSs(cs[i].body))>>)]
TComm(cs) == [i \in DOMAIN cs |->
             IF cs[i].list = <<>> THEN Stmt(<<Kw("default"), Grp("block", TSs(cs[i].body))>>)
             ELSE Stmt(<<Grp("case", <<TS(cs[i].list[1])>>), Grp("block", TSs(cs[i].body))>>)]
TSs(ss) == [i \in DOMAIN ss |-> TS(ss[i])]
TCs(cs) == [i \in DOMAIN cs |->
             IF cs[i].list = <<>> THEN Stmt(<<Kw("default"), Grp("block", TSs(cs[i].body))>>)
             ELSE Stmt(<<Grp("case", TEs(cs[i].list)), Grp("block", TSs(cs[i].body))>>)]
TS(s) == CASE s.n = "Assign" -> Stmt(<<One(TEs(s.lhs)), Op(s.op), One(TEs(s.rhs))>>)
           [] s.n = "ExprStmt" -> TE(s.x)
           [] s.n = "IncDec" -> Stmt(<<TE(s.x), Op(s.op)>>)
           [] s.n = "Return" -> Stmt(<<Grp("return", TEs(s.results))>>)
           [] s.n = "Block" -> Stmt(<<Grp("block", TSs(s.list))>>)
           [] s.n = "Branch" -> Stmt(<<Kw(s.tok)>>)
           [] s.n = "Labeled" -> Stmt(<<Id(s.label), Op(":")>> \o (IF IsNilNode(s.stmt) THEN <<>> ELSE <<TS(s.stmt)>>))
           [] s.n = "If" -> Stmt(<<Grp("if", (IF IsNilNode(s.init) THEN <<>> ELSE <<TS(s.init)>>) \o <<TE(s.cond)>>), Grp("block", TSs(s.body))>>
                                 \o (IF IsNilNode(s.els) THEN <<>> ELSE <<Kw("else"), TS(s.els)>>))
           [] s.n = "For" -> Stmt(<<Grp("for", IF IsNilNode(s.init) /\ IsNilNode(s.post)
                                                THEN (IF IsNilNode(s.cond) THEN <<>> ELSE <<TE(s.cond)>>)
                                                ELSE << IF IsNilNode(s.init) THEN Stmt(<<Empty>>) ELSE TS(s.init),
                                                        IF IsNilNode(s.cond) THEN Stmt(<<Empty>>) ELSE TE(s.cond),
                                                        IF IsNilNode(s.post) THEN Stmt(<<Empty>>) ELSE TS(s.post) >>),
                                    Grp("block", TSs(s.body))>>)
           [] s.n = "Switch" -> Stmt(<<Grp("switch", IF IsNilNode(s.tag) THEN <<>> ELSE <<TE(s.tag)>>), Grp("block", TCs(s.clauses))>>)
           [] s.n = "Range" -> Stmt(<<Grp("for", <<Stmt(<<IF s.val = "" THEN Id(s.key) ELSE Grp("list", <<Stmt(<<Id(s.key)>>), Stmt(<<Id(s.val)>>)>>),
                                                         Op(":="), Kw("range"), TE(s.x)>>)>>), Grp("block", TSs(s.body))>>)
           [] s.n = "GoDefer" -> Stmt(<<Kw(s.tok), TE(s.call)>>)
           [] s.n = "Goto" -> Stmt(<<Kw("goto"), Id(s.label)>>)
           [] s.n = "Send" -> Stmt(<<TE(s.ch), Op("<-"), TE(s.val)>>)
           [] s.n = "TypeSwitch" -> Stmt(<<Grp("switch", <<Stmt((IF s.bind = "" THEN <<>> ELSE <<Id(s.bind), Op(":=")>>) \o <<TE(EAssert(s.x, Nil))>>)>>),
                                         Grp("block", TTCs(s.clauses))>>)
           [] s.n = "Select" -> Stmt(<<Kw("select"), Grp("block", TComm(s.clauses))>>)
           [] s.n = "VarDecl" -> Stmt(<<Kw(s.tok), Id(s.name)>> \o (IF IsNilNode(s.typ) THEN <<>> ELSE <<TE(s.typ)>>)
                                      \o (IF IsNilNode(s.val) THEN <<>> ELSE <<Op("="), TE(s.val)>>))
           [] s.n = "DeclGroup" -> Stmt(<<Kw(s.tok), Grp("defs", [i \in DOMAIN s.specs |->
                                         Stmt(<<Id(s.specs[i][1])>> \o (IF IsNilNode(s.specs[i][2]) THEN <<>> ELSE <<Op("="), TE(s.specs[i][2])>>))])>>)
           \* Types() is written even when there are no type parameters: it must render nothing then
           [] s.n = "TypeDecl" -> Stmt(<<Kw("type"), Id(s.name), Grp("types", TParams(s.tparams)), TE(s.typ)>>)
           [] s.n = "FuncDecl" -> Stmt(<<Kw("func")>> \o (IF s.recv = <<>> THEN <<>> ELSE <<Grp("params", TParams(s.recv))>>)
                                       \o <<Id(s.name), Grp("types", TParams(s.tparams)), Grp("params", TParams(s.params))>>
                                       \o (IF IsNilNode(s.result) THEN <<>> ELSE <<TE(s.result)>>)
                                       \o (IF IsNilNode(s.body) THEN <<>> ELSE <<Grp("block", TSs(s.body.list))>>))

(* ---------- bounded universe ---------- *)
Atoms == {EId("a"), EId("b"), ELit("1")}
E1 == Atoms \cup {EBin(x, "+", y) : x, y \in Atoms} \cup {EParen(x) : x \in Atoms}
         \cup {ECall(EId("f"), as) : as \in UNION {[1..n -> Atoms] : n \in 0..3}}
         \cup {EIdx(EId("a"), x) : x \in Atoms}
         \cup {ESlice(EId("a"), lo, hi, Nil) : lo, hi \in {Nil, ELit("1")}}
         \cup {ESlice(EId("a"), lo, ELit("1"), EId("b")) : lo \in {Nil, ELit("1")}}
Simple == {SAssign(<<EId("a")>>, ":=", <<x>>) : x \in E1}
          \cup {SAssign(<<EId("a"), EId("b")>>, "=", <<EId("b"), x>>) : x \in Atoms}
          \cup {SExpr(ECall(EId("f"), <<>>)), SInc(EId("a")), SBranch("break"), SBranch("fallthrough")}
          \cup {SRet(rs) : rs \in UNION {[1..n -> Atoms] : n \in 0..2}}
Bodies == {<<>>} \cup {<<s>> : s \in {SInc(EId("a")), SRet(<<>>), SBranch("break"), SLabel("L", Nil)}}
              \cup {<<SInc(EId("a")), s>> : s \in {SRet(<<EId("b")>>), SLabel("L", Nil), SExpr(ECall(EId("f"), <<>>))}}
Inits == {Nil, SAssign(<<EId("a")>>, ":=", <<ELit("1")>>)}
Conds == {EId("b"), EBin(EId("a"), "<", ELit("1"))}
ClauseBodies == {b \in Bodies : b = <<>> \/ b[Len(b)].n # "Labeled"}
Clauses == {Clause(es, b) : es \in {<<>>, <<ELit("1")>>, <<ELit("1"), EId("b")>>}, b \in ClauseBodies}
Compound0 == {SIf(i, c, b, Nil) : i \in Inits, c \in Conds, b \in Bodies}
             \cup {SFor(i, c, p, b) : i \in Inits, c \in {Nil} \cup Conds, p \in {Nil, SInc(EId("a"))}, b \in Bodies}
             \cup {SBlock(b) : b \in Bodies}
             \cup {SLabel("L", s) : s \in {SInc(EId("a")), SFor(Nil, Nil, Nil, <<>>)}}
Compound1 == {SIf(Nil, EId("b"), b, e) : b \in Bodies, e \in {SBlock(b2) : b2 \in Bodies} \cup {SIf(Nil, EId("a"), <<>>, Nil)}}
             \cup {SSwitch(t, cs) : t \in {Nil, EId("a")}, cs \in UNION {[1..n -> Clauses] : n \in 0..2}}
             \cup {SFor(Nil, EId("b"), Nil, <<s>>) : s \in Compound0}
\* second universe: types, declarations, the remaining expression and statement forms
TInt == EId("int")
Types2 == {TInt, TStar(EId("T")), TArr(Nil, TInt), TArr(ELit("1"), TInt), TMap(TInt, EId("T")), TChan(TInt), TArr(Nil, TStar(TInt)),
           TStruct(<<>>), TStruct(<<<<"a", TInt>>>>), TStruct(<<<<"a", TInt>>, <<"b", TArr(Nil, TInt)>>>>),
           TIface(<<>>), TIface(<<<<"m", <<>>, Nil>>>>), TIface(<<<<"m", <<<<"x", TInt>>>>, TInt>>, <<"f", <<>>, Nil>>>>)}
Params2 == {<<>>, <<<<"a", TInt>>>>, <<<<"a", TInt>>, <<"b", TStar(EId("T"))>>>>}
E2 == {EUn(o, x) : o \in {"-", "!", "*", "&", "<-"}, x \in {EId("a"), ECall(EId("f"), <<>>)}}
      \cup {ESel(EId("a"), "b"), ESel(ECall(EId("f"), <<>>), "x"), ESel(ESel(EId("a"), "b"), "x")}
      \cup {EAssert(EId("a"), t) : t \in {TInt, TStar(EId("T"))}}
      \cup {EComp(t, es) : t \in {EId("T"), TArr(Nil, TInt), TMap(TInt, TInt)}, es \in {<<>>, <<ELit("1")>>, <<EId("a"), EId("b")>>}}
      \cup {EKV(EId("T"), ks, vs) : ks \in {<<EId("a")>>, <<EId("a"), EId("b")>>, <<ELit("1"), EId("a"), EId("b")>>}, vs \in {<<ELit("1"), EId("x"), ECall(EId("f"), <<>>)>>}}
      \cup {EFunc(ps, r, b) : ps \in Params2, r \in {Nil, TInt}, b \in {<<>>, <<SRet(<<EId("a")>>)>>}}
      \cup {EBin(EUn("-", EId("a")), "-", EUn("-", EId("b"))), EBin(EId("a"), "&", EUn("^", EId("b"))), ECall(EFunc(<<>>, Nil, <<>>), <<>>)}
Stmts2 == {SRange(k, v, x, b) : k \in {"a", "_"}, v \in {"", "b"}, x \in {EId("x"), ECall(EId("f"), <<>>)}, b \in {<<>>, <<SInc(EId("a"))>>}}
          \cup {SGo(w, ECall(EId("f"), as)) : w \in {"go", "defer"}, as \in {<<>>, <<EId("a")>>}}
          \cup {SGo("go", ECall(EFunc(<<>>, Nil, <<SInc(EId("a"))>>), <<>>))}
          \cup {SGoto("L"), SSend(EId("a"), EId("b")), SSend(EId("a"), EUn("<-", EId("b")))}
          \cup {STypeSwitch(bd, EId("x"), cs) : bd \in {"", "a"},
                   cs \in {<<>>, <<Clause(<<TInt>>, <<>>)>>, <<Clause(<<TInt, TStar(EId("T"))>>, <<SInc(EId("a"))>>), Clause(<<>>, <<SRet(<<>>)>>)>>}}
          \cup {SSelect(cs) : cs \in {<<>>, <<Clause(<<SSend(EId("a"), EId("b"))>>, <<>>)>>,
                                         <<Clause(<<SAssign(<<EId("a")>>, ":=", <<EUn("<-", EId("b"))>>)>>, <<SInc(EId("a"))>>), Clause(<<>>, <<SBranch("break")>>)>>,
                                         <<Clause(<<SExpr(EUn("<-", EId("b")))>>, <<SRet(<<>>)>>)>>}}
          \cup {SAssign(<<EId("a")>>, ":=", <<x>>) : x \in E2}
Decls2 == ({DVar(w, "a", t, v) : w \in {"var", "const"}, t \in {Nil, TInt}, v \in {Nil, ELit("1")}}
             \ {DVar("const", "a", Nil, Nil), DVar("const", "a", TInt, Nil), DVar("var", "a", Nil, Nil)})
          \cup {DVar("var", "a", t, Nil) : t \in Types2}
          \cup {DGroup(w, sp) : w \in {"var", "const"}, sp \in {<<>>, <<<<"a", ELit("1")>>>>, <<<<"a", ELit("1")>>, <<"b", Nil>>>>, <<<<"a", EId("b")>>, <<"b", ELit("1")>>, <<"x", Nil>>>>}}
          \cup {DType("T", tps, t) : tps \in {<<>>, <<<<"x", EId("any")>>>>, <<<<"x", EId("any")>>, <<"m", TInt>>>>}, t \in {TInt, TStruct(<<<<"a", TInt>>>>), TIface(<<>>), TArr(Nil, EId("x"))}}
          \cup {DFunc(recv, "f", tps, ps, r, b) : recv \in {<<>>, <<<<"x", TStar(EId("T"))>>>>}, tps \in {<<>>, <<<<"x", EId("any")>>>>},
                   ps \in Params2, r \in {Nil, TInt}, b \in {Nil, SBlock(<<>>), SBlock(<<SRet(<<EId("a")>>)>>)}}
Cases2 == Stmts2 \cup Decls2
Cases == Simple \cup Compound0 \cup Compound1 \cup Cases2

Faithful(s) == Lex(Render(TS(s), Nil)) = Norm(US(s), 1, <<>>)

VARIABLE c
Init == c \in Cases
Next == UNCHANGED c
Spec == Init /\ [][Next]_c
Inv == Faithful(c)
OutFile == "gomini.ndjson"
Emit == CSVWrite("%1$s", <<ToJson([kind |-> "gomini", tree |-> TS(c), toks |-> Norm(US(c), 1, <<>>)])>>, OutFile)
=============================================================================
