SPECIFICATION TSpec
CONSTANTS
  MaxCells = 1000000
  MaxOps = 1000000
  MaxAppend = 1000000
  HeaderCopy = FALSE
  TraceFile = "trace.ndjson"
  VFile = "viol.ndjson"
POSTCONDITION Accepted
CHECK_DEADLOCK FALSE
