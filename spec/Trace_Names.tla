----------------------------- MODULE Trace_Names -----------------------------
(***************************************************************************)
(* C18, second sentence: "The gennames tool, run on the installed          *)
(* toolchain, produces a name table with the same guarantee."  The tool is *)
(* run from the tree under test (go run ./gennames -standard); every entry *)
(* of the table it writes is one event, together with the name the package *)
(* really declares (its package clause, parsed from GOROOT/src at check    *)
(* time) and with what a File does when the table is handed to ImportNames *)
(* and the path is referenced.                                             *)
(***************************************************************************)
EXTENDS Integers, Sequences, TLC, Json, CSV

CONSTANTS TraceFile, VFile
Trace == ndJsonDeserialize(TraceFile)
VARIABLE l
E == Trace[l]
Report(prop, key) == CSVWrite("%1$s", <<ToJson([prop |-> prop, trace |-> l, line |-> l, key |-> key])>>, VFile)

Entry ==
  /\ E.ev = "entry"
  \* the table's name is the name the package declares
  /\ (E.real # "" /\ E.name # E.real) => Report("C18", "gennames: " \o E.path \o " is listed as " \o E.name)
  \* a File that was given the table refers to the package by a name its import provides
  /\ (E.status # "nil") => Report("C18", "gennames: a File with the table does not render: " \o E.path)
  /\ (E.status = "nil" /\ E.alias = "" /\ E.qual # E.real /\ E.real # "") => Report("C18", "gennames: unaliased import qualified by " \o E.qual \o ": " \o E.path)
  /\ (E.status = "nil" /\ E.alias # "" /\ E.qual # E.alias) => Report("C18", "gennames: aliased import qualified by another name: " \o E.path)
\* (packages of GOROOT/src that the table lacks are only counted: go list leaves out what the build constraints of this
\*  platform exclude - arena, runtime/asan, crypto/boring ... - and the property speaks about the entries of the table)
Missing == E.ev = "missing"
TableBad == E.ev = "tablebad" /\ Report("C18", "gennames: what the tool wrote is not a Go source file holding the table")
Init == l = 1
Next == l <= Len(Trace) /\ l' = l + 1 /\ (Entry \/ Missing \/ TableBad)
Spec == Init /\ [][Next]_l
Accepted == TLCGet("stats").diameter - 1 = Len(Trace)
=============================================================================
