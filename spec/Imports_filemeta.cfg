SPECIFICATION Spec
CONSTANTS
  Legacy = {}
  Paths = {"x/d", "fmt"}
  PathInfo <- MCPathInfo
  Sorted <- MCSorted
  Locals = {""}
  PrefixPool = {"", "pkg"}
  HintNames = {"d"}
  BodyPool <- BodyRefs
  FragPool <- NoFrags
  FileMeta <- MetaAll
  Preambles <- Pre0
  MaxOps = 3
  MaxBody = 3
  MaxRenders = 1
VIEW view
INVARIANTS C03_Resolve C04_Exact C05_UniqueLegal C06_LocalDot C19_Cgo C08_StableNames C15_FileLevel
PROPERTY C08_BoundNeverChanges
CONSTRAINT Emit
CHECK_DEADLOCK FALSE
