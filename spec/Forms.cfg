SPECIFICATION Spec
CONSTANTS
  MaxDepth = 2
  MaxKids = 2
INVARIANT Holds
CONSTRAINT Emit
CHECK_DEADLOCK FALSE
