SPECIFICATION Spec
CONSTANTS
  MaxDepth = 2
  MaxKids = 2
  Names = {"block", "call", "do"}
INVARIANT Holds
CONSTRAINT Emit
CHECK_DEADLOCK FALSE
