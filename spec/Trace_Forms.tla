----------------------------- MODULE Trace_Forms -----------------------------
(***************************************************************************)
(* Trace validation for C14.  Events:                                      *)
(*  form  : one exported construct of the API under test built as package  *)
(*          function, Statement method, Group method (and with something   *)
(*          appended to the returned statement), rendered through every    *)
(*          entry point, with the callback log of the builds;              *)
(*  funcv : X(items...) against XFunc(callback adding the items);          *)
(*  tree  : a TLC-generated tree built with the chosen forms; its event    *)
(*          log must be exactly JenForms!FullLog(tree).                    *)
(***************************************************************************)
EXTENDS JenForms

CONSTANTS TraceFile, VFile
Trace == ndJsonDeserialize(TraceFile)
VARIABLE l
E == Trace[l]
Report(prop, key) == CSVWrite("%1$s", <<ToJson([prop |-> prop, trace |-> E.id, line |-> l, key |-> key])>>, VFile)

\* the log of a construct built in five forms: begin [cb] end render-begin render-end, five times
FormLog(name, iscb) ==
  LET one(f) == <<Ev("begin", name \o "/" \o f)>> \o (IF iscb THEN <<Ev("cb", name \o "/" \o f)>> ELSE <<>>)
                \o <<Ev("end", name \o "/" \o f), Ev("render-begin", ""), Ev("render-end", "")>>
  IN one("func") \o one("stmt") \o one("group") \o one("grouptail") \o one("functail")
Form ==
  /\ E.ev = "form"
  /\ (~(E.haspkg /\ E.hasstmt /\ E.hasgroup)) => Report("C14", "construct lacks a form: " \o E.name)
  /\ (E.wantfunc /\ ~E.hasfunc) => Report("C14", "variadic construct lacks its Func variant: " \o E.name)
  /\ (E.haspkg /\ E.hasstmt /\ E.hasgroup /\ E.builderror = "") =>
       /\ (E.outs["stmt"] # E.outs["func"]) => Report("C14", "Statement method differs from package function: " \o E.name)
       /\ (E.outs["group"] # E.outs["func"]) => Report("C14", "Group method differs from package function: " \o E.name)
       /\ (E.outs["grouptail"] # E.outs["functail"]) => Report("C14", "Group method does not return the statement it appended: " \o E.name)
       /\ (E.render # E.gostring \/ E.render # E.withfile) => Report("C14", "GoString / Render / RenderWithFile disagree: " \o E.name)
       /\ (E.nv_stmt # E.nv_func \/ E.nv_group # E.nv_func) => Report("C14", "forms differ when called without variadic operands: " \o E.name)
       /\ (E.one_group # E.one_func) => Report("C14", "Group method with one argument differs from the package function: " \o E.name)
       /\ (E.arg_after # E.arg_before) => Report("C14", "Group method returns the caller's own statement instead of the new one: " \o E.name)
       /\ (E.log # FormLog(E.name, E.iscallback)) => Report("C14", "callback not run exactly once inside the constructing call: " \o E.name)
  /\ (E.builderror # "" /\ E.builderror # "error cannot synthesise arguments") => Report("C14", "construct panics: " \o E.name)
Funcv ==
  /\ E.ev = "funcv"
  /\ (E.status # "nil" \/ E.plain # E.funcv) => Report("C14", "Func variant differs from the plain form: " \o E.name)
EntryEv ==
  /\ E.ev = "entry"
  /\ (E.render # E.gostring \/ E.render # E.withfile) => Report("C14", "GoString / Render / RenderWithFile disagree: " \o E.name)
DictFuncEv ==
  /\ E.ev = "dictfunc"
  /\ (E.status # "nil" \/ E.plain # E.funcv) => Report("C14", "DictFunc differs from the Dict literal")
  /\ (E.log # <<Ev("begin", "DictFunc"), Ev("cb", "DictFunc"), Ev("end", "DictFunc"), Ev("render-begin", ""), Ev("render-end", "")>>)
       => Report("C14", "callback not run exactly once inside the constructing call: DictFunc")
TreeEv ==
  /\ E.ev = "tree"
  /\ (E.status # "nil") => Report("C14", "tree build fails")
  /\ (E.log # FullLog(E.tree)) => Report("C14", "callbacks: log is not the log of the specification")
  /\ (E.out # E.ref) => Report("C14", "forms render differently")
TInit == l = 1 /\ t = Leaf("0")
\* a section of the experiment during which the library killed the process (it is executed in a child process)
CrashEv ==
  /\ E.ev = "Crash"
  /\ Report("CRASH", "the library killed the process: " \o E.msg)
TNext == l <= Len(Trace) /\ l' = l + 1 /\ (Form \/ Funcv \/ EntryEv \/ DictFuncEv \/ TreeEv \/ CrashEv) /\ UNCHANGED t
TSpec == TInit /\ [][TNext]_<<l, t>>
Accepted == TLCGet("stats").diameter - 1 = Len(Trace)
=============================================================================
