SPECIFICATION Spec
CONSTANTS
  Legacy = {}
  Paths = {"x/d", "y/d", "fmt"}
  PathInfo <- MCPathInfo
  Sorted <- MCSorted
  Locals = {""}
  PrefixPool = {"", "pkg"}
  HintNames = {"d", ".", "q", ""}
  BodyPool <- BodyRefs
  FragPool <- Frags
  FileMeta <- Meta0
  Preambles <- Pre0
  MaxOps = 4
  MaxBody = 2
  MaxRenders = 3
VIEW view
INVARIANTS C03_Resolve C04_Exact C05_UniqueLegal C06_LocalDot C19_Cgo C08_StableNames
PROPERTY C08_BoundNeverChanges
CONSTRAINT Emit
CHECK_DEADLOCK FALSE
