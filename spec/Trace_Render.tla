---------------------------- MODULE Trace_Render ----------------------------
(***************************************************************************)
(* Trace validation of rendering cases executed on the real library        *)
(* (C13 lists, C16 / C07 dicts, C15 comments).  For every case:            *)
(*  (B) the model's raw bytes (Jen!RenderFile) are compared with the real  *)
(*      NoFormat output: a difference is DRIFT;                            *)
(*  (C) the monitors decide the property on the observation only.          *)
(***************************************************************************)
EXTENDS Jen, Json, CSV

CONSTANTS TraceFile, VFile
Trace == ndJsonDeserialize(TraceFile)
VARIABLE l
E == Trace[l]
Report(prop, key) == CSVWrite("%1$s", <<ToJson([prop |-> prop, trace |-> E.id, line |-> l, key |-> key])>>, VFile)

Cfg0 == [local |-> "", prefix |-> "", hints |-> <<>>,
         paths |-> [p \in {"x/d", "y/d"} |-> [std |-> "", guess |-> "d", quoted |-> "\"" \o p \o "\""]]]
Fc0 == [name |-> "main", canonicalq |-> "", headers |-> <<>>, comments |-> <<>>, preamble |-> <<>>]
ModelRaw(body) == Flat(RenderFile(Cfg0, Fc0, body, <<>>, <<"x/d", "y/d">>)[1])
Drift(body, r, what) == (r.status = "nil" /\ ModelRaw(body) # r.raw) => Report("DRIFT", what)

C13 ==
  /\ E.ev = "c13"
  /\ Drift(<<E.base>>, E.rb, "c13 base " \o E.name)
  /\ Drift(<<E.variant>>, E.rv, "c13 variant " \o E.name)
  \* nil / Null() / statements made only of them vanish: same bytes with and without them
  /\ (E.rv.status # "nil" \/ E.rb.status # "nil") => Report("C13", "render fails " \o E.name \o " " \o E.rv.status)
  /\ (E.rv.status = "nil" /\ E.rb.status = "nil" /\ E.rv.raw # E.rb.raw) => Report("C13", "null items change the output " \o E.name)
  /\ (E.rv.fstatus = "nil" /\ E.rb.fstatus = "nil" /\ E.rv.out # E.rb.out) => Report("C13", "null items change the formatted output " \o E.name)
  /\ (E.rv.fstatus # E.rb.fstatus) => Report("C13", "null items change the result " \o E.name)
  \* exactly the remaining items, in order; Empty() takes part in separation
  /\ (E.rv.status = "nil" /\ E.vidents # E.idents) => Report("C13", "items lost or reordered " \o E.name)
  /\ (E.rv.status = "nil" /\ E.framed /\ E.vnsep # E.nsep) => Report("C13", "separators " \o E.name)
  /\ (E.again = "differs") => Report("C13", "the same list renders differently the second time " \o E.name)
  /\ (E.again = "placeholder") => Report("C13", "an item that was null when the list was first rendered stays invisible after it got a token " \o E.name)
  /\ (E.again = "slice") => Report("C13", "a list built from a slice changes the caller's slice: the next list built from it renders differently " \o E.name)

CfgAlias(al) == IF al = "" THEN Cfg0 ELSE IF al = "@pkg" THEN [Cfg0 EXCEPT !.prefix = "pkg"] ELSE [Cfg0 EXCEPT !.hints = [p \in {"x/d"} |-> Def(al, TRUE)]]
C16 ==
  /\ E.ev = "c16"
  /\ (E.rv.status = "nil" /\ Flat(RenderFile(CfgAlias(E.alias), Fc0, <<E.otree>>, <<>>, <<"x/d", "y/d">>)[1]) # E.rv.raw) => Report("DRIFT", "c16")
  /\ (E.rv.status # "nil" \/ E.rv.fstatus # "nil") => Report("C16", "render fails")
  /\ (E.parsed /\ E.got # E.expected) => Report(IF E.known = "" THEN "C16" ELSE "C16", "pairs " \o E.known)
  /\ (E.parsed /\ ~E.sorted) => Report("C16", "order " \o E.known)
  /\ (E.parsed /\ E.multiline # (E.live > 1)) => Report("C16", "layout")
  /\ (E.nhash # 1) => Report("C07", IF E.known = "" THEN "dict" ELSE E.known)

\* F11 (known finding): a one-line comment "+build ..." is taken by go/printer for a build constraint and hoisted
C15Key(k) == IF E.cl = "buildtag" THEN "F11" ELSE k
C15 ==
  /\ E.ev = "c15"
  /\ Drift(E.base, E.rb, "c15 base")
  /\ Drift(E.variant, E.rv, "c15 variant")
  /\ (E.rv.fstatus # "nil" \/ E.rb.fstatus # "nil") => Report("C15", C15Key("render fails " \o E.cont))
  /\ (E.rv.fstatus = "nil" /\ E.rb.fstatus = "nil" /\ E.ctv # E.ctb) => Report("C15", C15Key("code tokens changed " \o E.cont \o " " \o E.mode))
  /\ (E.rv.fstatus = "nil" /\ ~E.found) => Report("C15", C15Key("comment text lost " \o E.cl))
  /\ (E.rv.fstatus = "nil" /\ E.found /\ E.style # E.wantstyle) => Report("C15", C15Key("comment style " \o E.cl))

C08 ==
  /\ E.ev = "c08"
  /\ Drift(<<E.tree>>, E.r1, "c08")
  /\ (E.r1.status # "nil") => Report("C08", "render fails")
  \* the same File rendered three times, the same Statement rendered three times with one File
  /\ (E.r1.raw # E.r2.raw \/ E.r2.raw # E.r3.raw \/ E.r1.status # E.r2.status \/ E.r2.status # E.r3.status) => Report("C08", "repeat raw")
  /\ (E.r1.out # E.r2.out \/ E.r2.out # E.r3.out \/ E.r1.fstatus # E.r2.fstatus \/ E.r2.fstatus # E.r3.fstatus) => Report("C08", "repeat formatted")
  /\ (E.s1 # E.s2 \/ E.s2 # E.s3) => Report("C08", "repeat statement")

\* C01 on the mini-AST universe: the real token stream of T(ast) is the program's token stream
GoMiniEv ==
  /\ E.ev = "gomini"
  /\ Drift(<<E.tree>>, E.rv, "gomini")
  /\ (E.rv.status # "nil") => Report("C01", "render fails")
  /\ (E.rv.status = "nil" /\ E.rtoks # E.toks) => Report("C01", "token stream of the documented construction differs from the program")

\* C07: one recipe built and rendered repeatedly in several processes: all hashes equal
Det ==
  /\ E.ev = "det"
  /\ (E.nhash # 1 \/ \E i, j \in DOMAIN E.hashes : E.hashes[i] # E.hashes[j]) => Report("C07", "recipe")

Init == l = 1
Next == l <= Len(Trace) /\ l' = l + 1 /\ (C13 \/ C16 \/ C15 \/ C08 \/ Det \/ GoMiniEv)
Spec == Init /\ [][Next]_l
Accepted == TLCGet("stats").diameter - 1 = Len(Trace)
=============================================================================
