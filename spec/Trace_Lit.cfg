SPECIFICATION TSpec
CONSTANTS
  TraceFile = "trace.ndjson"
  VFile = "viol.ndjson"
POSTCONDITION Accepted
CHECK_DEADLOCK FALSE
