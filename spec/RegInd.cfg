SPECIFICATION ISpec
CONSTANTS
  Legacy = {}
  IPaths = {"x/d", "y/d", "z/d1", "x/go"}
  IPathInfo <- MCIPathInfo
  Pool = {"d", "d1", "d2", "pkg_d", "pkg_d1", "go1", "_", "."}
  HintPool = {"d", "d1", "pkg_d", "go", "int", "."}
  PfxPool = {"", "pkg"}
INVARIANT Inv
CHECK_DEADLOCK FALSE
