------------------------------ MODULE Trace_Own ------------------------------
(***************************************************************************)
(* The specification against everything the repository itself documents   *)
(* and tests.  The Example functions and the table-driven test cases of    *)
(* package jen are executed against the tree under test (harness/cmd/      *)
(* ownrun); every value they build is dumped AS IT IS STORED               *)
(* (jen.VerifDump: statements, groups with their real open / close /       *)
(* separator / multi fields, tokens, Dicts in the order the first pass     *)
(* visited them, comments, tags) and rendered raw (jen.VerifRenderRaw, or  *)
(* a NoFormat render for a File).                                          *)
(*  (B) Jen!R / Jen!RenderFile applied to the dumped structure must give   *)
(*      exactly those raw bytes and that import table, and the model's     *)
(*      construct Table (written from the README) must agree with the      *)
(*      fields of every real Group: DRIFT otherwise;                       *)
(*  (C) C02 monitors: a nil result parses and is gofmt of the raw bytes;   *)
(*      never a panic.                                                     *)
(***************************************************************************)
EXTENDS Jen, JenGuess, Json, CSV

CONSTANTS TraceFile, VFile
Trace == ndJsonDeserialize(TraceFile)
VARIABLE l
E == Trace[l]
Report(prop, key) == CSVWrite("%1$s", <<ToJson([prop |-> prop, trace |-> E.trace, line |-> l, key |-> key])>>, VFile)
TableFn(t) == [p \in {t[i].path : i \in DOMAIN t} |-> LET i == CHOOSE i \in DOMAIN t : t[i].path = p IN Def(t[i].name, t[i].alias)]
Paths == [p \in DOMAIN E.paths |-> [E.paths[p] EXCEPT !.guess = Guess(E.paths[p].lower)]]

\* the model's construct table against the fields of the real groups
RECURSIVE TableOK(_)
TableOK(c) ==
  CASE c.k = "grp" ->
         /\ (c.name # "custom" /\ c.name # "") =>
              (c.name \in GroupNames /\ Flat(Table[c.name].open) = c.ropen /\ Flat(Table[c.name].close) = c.rclose
                 /\ Flat(Table[c.name].sep) = c.rsep /\ Table[c.name].multi = c.rmulti)
         /\ \A i \in DOMAIN c.items : TableOK(c.items[i])
    [] c.k \in {"stmt", "pair"} -> \A i \in DOMAIN c.items : TableOK(c.items[i])
    [] c.k = "dict" -> \A i \in DOMAIN c.items : TableOK(c.items[i])
    [] OTHER -> TRUE

Common ==
  /\ (E.status = "panic" \/ E.rawstatus = "panic") => Report("C02", "panic: " \o E.name)
  /\ (E.status = "nil" /\ ~E.parses) => Report("C02", "nil but the output does not parse: " \o E.name)
  /\ (E.status = "nil" /\ E.rawstatus = "nil" /\ ~E.fmteq) => Report("C02", "output is not gofmt of the raw rendering: " \o E.name)
  /\ (E.status = "nil" /\ E.rawstatus = "nil" /\ ~E.fmtok) => Report("C02", "invalid composition emitted as if valid: " \o E.name)

CodeEv ==
  /\ E.ev = "Code"
  /\ LET cfg == [local |-> "", prefix |-> "", hints |-> <<>>, paths |-> Paths]
         r   == R(cfg, E.tree, NilC, <<>>)
     IN /\ (E.rawstatus = "nil" /\ Flat(r[1]) # E.raw) => Report("DRIFT", "raw: " \o E.name)
        /\ (E.rawstatus = "nil" /\ r[2] # TableFn(E.table)) => Report("DRIFT", "table: " \o E.name)
        /\ ~TableOK(E.tree) => Report("DRIFT", "construct table: " \o E.name)
        /\ Common

FileEv ==
  /\ E.ev = "File"
  /\ LET cfg == [local |-> E.cfg.local, prefix |-> E.cfg.prefix, hints |-> TableFn(E.cfg.hints), paths |-> Paths]
         fc  == [name |-> E.cfg.pkg, canonicalq |-> E.cfg.canonicalq, headers |-> E.cfg.headers, comments |-> E.cfg.comments, preamble |-> E.cfg.preamble]
         r   == RenderFile(cfg, fc, E.body, TableFn(E.cfg.before), E.sorted)
     IN /\ (E.rawstatus = "nil" /\ Flat(r[1]) # E.raw) => Report("DRIFT", "raw: " \o E.name)
        /\ (E.rawstatus = "nil" /\ r[2] # TableFn(E.table)) => Report("DRIFT", "table: " \o E.name)
        /\ (\E i \in DOMAIN E.body : ~TableOK(E.body[i])) => Report("DRIFT", "construct table: " \o E.name)
        /\ Common

Init == l = 1
Next == l <= Len(Trace) /\ l' = l + 1 /\ (CodeEv \/ FileEv)
Spec == Init /\ [][Next]_l
Accepted == TLCGet("stats").diameter - 1 = Len(Trace)
=============================================================================
