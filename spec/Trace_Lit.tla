------------------------------ MODULE Trace_Lit ------------------------------
(***************************************************************************)
(* Trace validation for literals, strings / runes / bytes and struct tags  *)
(* (C11 C12 C17).  One event per distinct observation signature (with a    *)
(* count and an example).  (B) the form JenLit predicts; (C) the property  *)
(* on the measured facts.                                                  *)
(***************************************************************************)
EXTENDS JenLit, Json, CSV

CONSTANTS TraceFile, VFile
Trace == ndJsonDeserialize(TraceFile)
VARIABLE l
E == Trace[l]
Report(prop, key) == CSVWrite("%1$s", <<ToJson([prop |-> prop, trace |-> E.id, line |-> l, key |-> key])>>, VFile)
SeqSet(s) == {s[i] : i \in DOMAIN s}
EvalName(t) == IF t = "uint8" THEN "byte-or-uint8" ELSE t

Num ==
  /\ E.ev = "num"
  /\ (E.status = "nil" /\ E.form # LitForm(E.type, E.shape)) => Report("DRIFT", "form " \o E.type \o " " \o E.shape)
  /\ (E.status # "nil") => Report("C11", "render fails " \o E.type)
  /\ (E.status = "nil" /\ ~E.framed) => Report("C11", "literal is not a self-contained expression " \o E.type)
  /\ (E.status = "nil" /\ E.evaltype # E.type /\ ~(E.type = "uint8" /\ E.evaltype = "byte")) => Report("C11", "type " \o E.type \o " rendered as " \o E.evaltype)
  /\ (E.status = "nil" /\ ~E.valeq) => Report("C11", "value changed " \o E.type \o " " \o E.shape)
Str ==
  /\ E.ev = "str"
  /\ (E.kind = "string" /\ E.status = "nil" /\ E.style # "interpreted") => Report("DRIFT", "string style")
  /\ (E.kind = "string" /\ E.status = "nil" /\ ~ScanOK(QuoteSeq(E.classes), FALSE)) => Report("DRIFT", "model cannot quote")
  /\ (E.status # "nil") => Report("C12", "render fails " \o E.kind)
  /\ (E.status = "nil" /\ ~E.onetoken) => Report("C12", "not one " \o LitKind(E.kind) \o " token: characters leak into the surrounding code")
  /\ (E.status = "nil" /\ ~E.roundtrip) => Report("C12", "value changed " \o E.kind)
Tag ==
  /\ E.ev = "tag"
  /\ (E.status = "nil" /\ ~E.empty /\ E.style # TagStyle(E.hasbackquote)) => Report("DRIFT", "tag style")
  /\ (E.status # "nil") => Report("C17", "render fails")
  /\ (E.status = "nil" /\ E.empty /\ E.style # "none") => Report("C17", "empty map renders something")
  /\ (E.status = "nil" /\ ~E.onetoken) => Report("C17", "not one string literal")
  /\ (E.status = "nil" /\ ~E.empty /\ ~E.lookups) => Report("C17", "reflect.StructTag does not return the value")
  /\ (E.status = "nil" /\ ~E.sorted) => Report("C17", "keys not sorted")
\* many literals as the elements of one list (no element type to lean on): each denotes what it denotes alone
Bulk ==
  /\ E.ev = "bulk"
  /\ (E.differ > 0) => Report(E.prop, "a literal among many in one list differs from the same literal alone: " \o E.kind)
TInit == l = 1 /\ x = 0
TNext == l <= Len(Trace) /\ l' = l + 1 /\ (Num \/ Str \/ Tag \/ Bulk) /\ UNCHANGED x
TSpec == TInit /\ [][TNext]_<<l, x>>
Accepted == TLCGet("stats").diameter - 1 = Len(Trace)
=============================================================================
