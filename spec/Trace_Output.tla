---------------------------- MODULE Trace_Output ----------------------------
(***************************************************************************)
(* Trace validation for the output pipeline (C10).  One event per call of  *)
(* a real entry point under an injected fault: the individual Write calls  *)
(* seen by the writer double, the returned status, the Save target before  *)
(* and after.  (B) JenOutput!Outcome predicts result and number of Write   *)
(* calls (DRIFT); (C) the monitors accept ANY chunking of a successful     *)
(* write and decide only what the property states.                         *)
(***************************************************************************)
EXTENDS JenOutput

CONSTANTS TraceFile, VFile
Trace == ndJsonDeserialize(TraceFile)
VARIABLE l
E == Trace[l]
Report(prop, key) == CSVWrite("%1$s", <<ToJson([prop |-> prop, trace |-> E.id, line |-> l, key |-> key])>>, VFile)

Mon ==
  LET q == E.p
      formatting == ~q.noformat
      renderFails == formatting /\ ~E.fmtok
      key == q.entry
  IN
  \* (B) prediction
  /\ LET o == Outcome([q EXCEPT !.valid = E.fmtok]) IN
       (o.result # E.status \/ o.calls # E.ncalls) => Report("DRIFT", key)
  \* if rendering fails nothing is written, an error is returned, a Save target is untouched
  /\ (renderFails /\ E.ncalls # 0) => Report("C10", "written before formatting succeeded " \o key)
  /\ (renderFails /\ E.status \in {"nil", "panic"}) => Report("C10", "failed render not reported " \o key)
  /\ (renderFails /\ q.entry = "File.Save" /\ E.after # E.before) => Report("C10", "Save touched the target although rendering failed")
  \* errors from the writer or the filesystem are returned, never swallowed
  /\ (E.wroteerr /\ E.status # "writeerror") => Report("C10", "writer error swallowed " \o key)
  /\ (E.wroteerr /\ E.status = "writeerror" /\ ~E.sameerr) => Report("C10", "writer error replaced " \o key)
  /\ (q.entry = "File.Save" /\ ~renderFails /\ q.target \notin {"absent", "present", "nearsame"} /\ E.status = "nil") => Report("C10", "filesystem error swallowed " \o q.target)
  \* on success the writer has received, and the saved file contains, exactly the rendered output
  /\ (E.status = "nil" /\ q.entry # "File.Save" /\ ~E.goteq) => Report("C10", "writer did not receive exactly the output " \o key)
  /\ (E.status = "nil" /\ q.entry = "File.Save" /\ E.after # "new") => Report("C10", "saved file differs from the output")
  /\ (E.status = "nil" /\ renderFails) => Report("C10", "nil although the rendering is not valid Go " \o key)
  /\ (E.status = "panic") => Report("C10", "panic " \o key)
  /\ (E.stdbuf # "ok") => Report("C10", "a writer of the standard library as the caller's writer: " \o E.stdbuf \o " " \o key)
  /\ (~E.canary) => Report("C10", "a later, unrelated render does not receive exactly its output after " \o key \o " " \o E.status)
  /\ (~renderFails /\ ~E.wroteerr /\ q.entry # "File.Save" /\ E.status # "nil") => Report("C10", "spurious error " \o key)
  /\ (~renderFails /\ q.entry = "File.Save" /\ q.target \in {"absent", "present", "nearsame"} /\ E.status # "nil") => Report("C10", "spurious error " \o key)

\* the pipeline variables are not driven by the trace (one event = one complete call): they stay at their start values
TInit == l = 1 /\ p = [entry |-> "none"] /\ pc = "start" /\ calls = 0 /\ okbytes = 0 /\ result = "none" /\ fs = "absent"
TNext == l <= Len(Trace) /\ l' = l + 1 /\ Mon /\ UNCHANGED vars
TSpec == TInit /\ [][TNext]_<<vars, l>>
Accepted == TLCGet("stats").diameter - 1 = Len(Trace)
=============================================================================
