---------------------------- MODULE Trace_Imports ----------------------------
(***************************************************************************)
(* Trace validation for File histories executed on the real library.       *)
(* Two levels in one spec:                                                 *)
(*  (B) the refined model (Jen!RenderFile with the transcribed register)   *)
(*      predicts the raw bytes and the import table of every render;       *)
(*      a difference is DRIFT (the model then resynchronises to the        *)
(*      observed table so the rest of the trace is still checked);         *)
(*  (C) the property monitors read only the observation and the small      *)
(*      abstract history (bound, claims, anons, hints) - only they produce *)
(*      violations.  Records are appended with CSVWrite inside the step    *)
(*      that consumes the observation.                                     *)
(***************************************************************************)
EXTENDS Jen, JenGuess, Json, CSV

CONSTANTS TraceFile, VFile
Trace == ndJsonDeserialize(TraceFile)

VARIABLES l, tid, cf, hints, imps, body, bound, claims, anons, dirty, last
vars == <<l, tid, cf, hints, imps, body, bound, claims, anons, dirty, last>>

E == Trace[l]
IsEv(e) == l <= Len(Trace) /\ E.ev = e /\ l' = l + 1
SeqSet(s) == {s[i] : i \in DOMAIN s}
Report(prop, key) == CSVWrite("%1$s", <<ToJson([prop |-> prop, trace |-> tid, line |-> l, key |-> key])>>, VFile)

NoCf == [local |-> "", prefix |-> "", preamble |-> <<>>, predoc |-> "", headers |-> <<>>, comments |-> <<>>, canonicalq |-> "", paths |-> <<>>, sorted |-> <<>>, pkgname |-> "main"]
Init == /\ l = 1 /\ tid = 0 /\ cf = NoCf /\ hints = <<>> /\ imps = <<>> /\ body = <<>>
        /\ bound = <<>> /\ claims = <<>> /\ anons = {} /\ dirty = TRUE /\ last = ""

New ==
  /\ IsEv("New")
  /\ tid' = E.trace
  \* the alias guess of every path is computed by the specification (JenGuess) from the path's code points;
  \* the recorder's own guess only serves to flag a disagreement between the two
  /\ cf' = [local |-> E.local, prefix |-> E.prefix, preamble |-> E.preamble, predoc |-> E.predoc, headers |-> E.headers, comments |-> E.comments, canonicalq |-> E.canonicalq,
            paths |-> [p \in DOMAIN E.paths |-> [E.paths[p] EXCEPT !.guess = Guess(E.paths[p].lower)]],
            sorted |-> E.sorted, pkgname |-> E.pkgname]
  /\ \A p \in DOMAIN E.paths : Guess(E.paths[p].lower) # E.paths[p].guess => Report("DRIFT", "guess " \o p)
  /\ hints' = <<>> /\ imps' = <<>> /\ body' = <<>> /\ bound' = <<>> /\ claims' = <<>> /\ anons' = {}
  /\ dirty' = TRUE /\ last' = ""

ImportName ==
  /\ IsEv("ImportName")
  /\ hints' = Put(hints, E.p, Def(E.n, FALSE))
  /\ claims' = IF E.p = "C" \/ E.n = "" THEN claims ELSE Put(claims, E.p, Find2(claims, E.p) \cup {E.n})
  /\ dirty' = TRUE
  /\ UNCHANGED <<tid, cf, imps, body, bound, anons, last>>
ImportAlias ==
  /\ IsEv("ImportAlias")
  /\ hints' = Put(hints, E.p, Def(E.n, TRUE))
  /\ dirty' = TRUE
  /\ UNCHANGED <<tid, cf, imps, body, bound, claims, anons, last>>
Anon ==
  /\ IsEv("Anon")
  /\ imps' = Put(imps, E.p, Def("_", TRUE))
  /\ anons' = anons \cup {E.p}
  /\ dirty' = TRUE
  /\ UNCHANGED <<tid, cf, hints, body, bound, claims, last>>
\* File.CgoPreamble called in the middle of a history
PreambleEv ==
  /\ IsEv("Preamble")
  /\ cf' = [cf EXCEPT !.preamble = Append(@, E.node), !.predoc = E.predoc]
  /\ dirty' = TRUE
  /\ UNCHANGED <<tid, hints, imps, body, bound, claims, anons, last>>
Add ==
  /\ IsEv("Add")
  /\ body' = Append(body, E.tree)
  /\ dirty' = TRUE
  /\ UNCHANGED <<tid, cf, hints, imps, bound, claims, anons, last>>

Cfg == [local |-> cf.local, prefix |-> cf.prefix, hints |-> hints, paths |-> cf.paths]
TableFn(t) == [p \in {t[i].path : i \in DOMAIN t} |-> LET i == CHOOSE i \in DOMAIN t : t[i].path = p IN Def(t[i].name, t[i].alias)]

(* ----------------------------- monitors (C) ------------------------------ *)
Real(p) == (IF p = "C" THEN {"C"} ELSE {}) \cup Find2(claims, p)
           \cup (IF p \in DOMAIN cf.paths /\ cf.paths[p].real # "" THEN {cf.paths[p].real} ELSE {})
Provides(s, q) == IF s.name # "" THEN s.name = q ELSE q \in Real(s.path)
EffNames(s) == IF s.name # "" THEN {s.name} ELSE Real(s.path)
IsStd(p) == p \in DOMAIN cf.paths /\ cf.paths[p].real # ""

\* qualifiers seen now: refs plus bare references (qualifier "")
Quals(refs, bare) == {<<r.path, r.qual>> : r \in refs} \cup {<<p, "">> : p \in bare}
Bind(b, qs) == [p \in DOMAIN b \cup {q[1] : q \in qs} |-> IF p \in DOMAIN b THEN b[p] ELSE (CHOOSE q \in qs : q[1] = p)[2]]

MonRefs(specsq, refs, bare, isFile) ==
  LET specs == SeqSet(specsq) IN
  \* C08: a path keeps the qualifier under which it first appeared
  /\ \A q \in Quals(refs, bare) : (q[1] \in DOMAIN bound /\ bound[q[1]] # q[2]) => Report("C08", q[1])
  /\ \A r1, r2 \in refs : (r1.path = r2.path /\ r1.qual # r2.qual) => Report("C03", r1.path)
  /\ \A r \in refs : \A p \in bare : r.path = p => Report("C03", p)
  \* C06: the local package is never qualified
  /\ \A r \in refs : (cf.local # "" /\ r.path = cf.local) => Report("C06", r.path)
  \* C19: C is always C
  /\ \A r \in refs : (r.path = "C" /\ r.qual # "C") => Report("C19", r.qual)
  /\ "C" \in bare => Report("C19", "unqualified")
  \* C06: a path declared a dot-import before its first appearance is bare
  /\ \A r \in refs : (r.path \notin DOMAIN bound /\ r.path # "C" /\ Find(hints, r.path) = Def(".", TRUE)) => Report("C06", r.path)
  \* C06: what is bare is local or a declared dot import (when it first appears)
  /\ \A p \in bare : (p \notin DOMAIN bound /\ p # cf.local /\ Find(hints, p) # Def(".", TRUE)) => Report("C06", p)

MonFile(specsq, refs, bare, parses) ==
  LET specs == SeqSet(specsq)
      used  == {r.path : r \in refs}
      nth(p) == Cardinality({i \in DOMAIN specsq : specsq[i].path = p})
  IN
  \* C03 / C18: every qualified reference is bound by the import block to exactly its path
  /\ \A r \in refs :
       (~ \E s \in specs : s.path = r.path /\ s.name \notin {"_", "."} /\ Provides(s, r.qual))
         => (Report("C03", r.path) /\ (IsStd(r.path) => Report("C18", r.path)))
  /\ \A r \in refs : \A s \in specs :
       (s.path # r.path /\ s.name \notin {"_", "."} /\ Provides(s, r.qual)) => Report("C03", "qualifier " \o r.qual \o " is also bound to " \o s.path)
  \* C04: exact import block
  /\ \A s \in specs :
       (~ (s.path \in used \/ s.path \in DOMAIN bound \/ s.name = "_" \/ (s.name = "." /\ s.path \in bare)
           \/ (s.path = "C" /\ ("C" \in anons \/ Len(cf.preamble) > 0))))
         => Report("C04", "unused " \o s.path)
  /\ \A p \in used : (~ \E s \in specs : s.path = p) => Report("C04", "missing " \o p)
  /\ \A p \in anons : (~ \E s \in specs : s.path = p) => Report("C04", "missing anon " \o p)
  /\ \A s \in specs : (s.name = "_" /\ s.path \notin anons) => Report("C04", "underscore " \o s.path)
  /\ \A s \in specs : nth(s.path) > 1 => Report("C04", "duplicate " \o s.path)
  /\ \A p \in bare : (p # cf.local /\ ~ \E s \in specs : s.path = p /\ s.name = ".")
                       => (Report("C06", p) /\ Report("C04", "missing dot " \o p) /\ Report("C03", "bare reference without a dot-import: " \o p)
                           /\ (IsStd(p) => Report("C18", "standard-library package referenced without qualifier or import: " \o p)))
  \* C05: unique and legal names
  /\ \A s1, s2 \in specs :
       (s1.path # s2.path /\ s1.name \notin {"", "_", "."} /\ s1.name \in EffNames(s2)) => Report("C05", s1.name)
  /\ \A s1, s2 \in specs :
       (s1.path # s2.path /\ s1.name = "" /\ s2.name = "" /\ EffNames(s1) \cap EffNames(s2) # {})
         => Report("C05", s1.path)
  /\ \A s \in specs : ~s.legal => Report("C05", s.name)
  \* C06: nothing imports the local package; a dot import is only referenced bare
  \* (an anonymous import of the own path that the user asked for with Anon is the user's import, not one produced by a reference)
  /\ \A s \in specs : (cf.local # "" /\ s.path = cf.local /\ ~(s.name = "_" /\ s.path \in anons)) => Report("C06", s.path)
  /\ \A s \in specs : (s.name = "." /\ s.path \in used) => Report("C06", s.path)
  \* C19
  /\ \A s \in specs : (s.path = "C" /\ s.name # "") => Report("C19", s.name)
  /\ ((Len(cf.preamble) > 0 \/ "C" \in anons \/ "C" \in DOMAIN bound \/ "C" \in used) /\ ~ \E s \in specs : s.path = "C") => Report("C19", "no import C")
  \* ... and C.x denotes the pseudo-package: no other import of the file is called C
  /\ \A s, o \in specs : (s.path = "C" /\ o.path # "C" /\ (o.name = "C" \/ (o.name = "" /\ "C" \in EffNames(o))))
                            => Report("C19", "the name C also denotes " \o o.path)
  /\ \A s, o \in specs : (s.path = "C" /\ Len(cf.preamble) > 0 /\ o.path # "C" /\ o.decl = s.decl) => Report("C19", "not separate")
  /\ \A s, o \in specs : (s.path = "C" /\ Len(cf.preamble) = 0 /\ o.decl # s.decl) => Report("C19", "separate without preamble")
  /\ \A s \in specs : (parses /\ s.path = "C" /\ Len(cf.preamble) > 0 /\ s.doc # cf.predoc)
                        => Report("C19", "preamble")
  \* C08: every path already bound to a qualifier is still declared under it
  /\ \A p \in DOMAIN bound :
       (bound[p] # "" /\ ~ \E s \in specs : s.path = p /\ s.name \notin {"_", "."} /\ Provides(s, bound[p]))
         => (Report("C08", "undeclared " \o p)
             \* (not for a path that the user made an anonymous import afterwards: what name it has from then on is the user's doing)
             /\ ((IsStd(p) /\ p \notin anons) => Report("C18", "a standard-library package referenced in an output produced with the File is not provided by its import block: " \o p)))

RenderEv ==
  /\ IsEv("Render")
  /\ LET fc   == [name |-> cf.pkgname, canonicalq |-> cf.canonicalq, headers |-> cf.headers, comments |-> cf.comments, preamble |-> cf.preamble]
         pred == IF E.rawstatus = "skip" THEN <<<<>>, <<>>>> ELSE RenderFile(Cfg, fc, E.body, imps, cf.sorted)
         refs == SeqSet(E.refs)
         bare == SeqSet(E.bare)
         obsT == TableFn(E.table)
     IN /\ (E.rawstatus = "nil" /\ Flat(pred[1]) # E.raw) => Report("DRIFT", "raw")
        /\ (E.rawstatus # "skip" /\ pred[2] # obsT) => Report("DRIFT", "table")
        \* (corpus files: identifiers are not unique per path, the symbol-based reference projection does not apply)
        \* (written as an equation so that TLC evaluates the monitors as ONE expression: as conjuncts of the action it would
        \*  descend one Java stack level per element of every quantifier - hundreds of thousands for a File of 500 imports)
        /\ ((~E.c01.on) => (MonRefs(E.specs, refs, bare, TRUE) /\ MonFile(E.specs, refs, bare, E.parses))) = TRUE
        \* C01: the re-parsed output equals the source program (package, imports under the same names, every declaration)
        /\ (E.c01.on /\ E.c01.var.prop = "" /\ E.status # "nil") => Report("C01", IF E.c01.known # "" THEN E.c01.known \o ":" \o E.c01.file ELSE "render fails: " \o E.c01.file)
        /\ (E.c01.on /\ E.c01.var.prop = "" /\ E.status = "nil" /\ ~(E.c01.parses /\ E.c01.pkgeq /\ E.c01.impeq /\ E.c01.asteq))
             => Report("C01", IF E.c01.known # "" THEN E.c01.known \o ":" \o E.c01.file ELSE "differs: " \o E.c01.file)
        \* program-level variants (C13 C14 C15): a real program executed in a changed way that must not matter
        \*   C13 null-like items injected into its list-like constructs, C14 a random form at every node,
        \*   C15 comments added to its multi-line containers - compared with the unchanged execution and with the source
        /\ (E.c01.on /\ E.c01.var.prop # "") =>
             LET v == E.c01.var  key == E.c01.file IN
             /\ (E.status # "nil") => Report(v.prop, "program variant does not render: " \o key)
             /\ (E.status = "nil" /\ ~(E.c01.parses /\ E.c01.pkgeq /\ E.c01.impeq /\ E.c01.asteq)) => Report(v.prop, "program variant is another program: " \o key)
             /\ (v.prop = "C13" /\ ~v.sameraw) => Report("C13", "null items change the raw rendering of a program: " \o key)
             /\ (v.prop \in {"C13", "C14"} /\ ~v.sameout) => Report(v.prop, "program variant renders other bytes: " \o key)
             /\ (v.prop = "C14" /\ ~v.sameraw) => Report("C14", "forms render different raw bytes in a program: " \o key)
             /\ (v.prop = "C14" /\ ~v.cbok) => Report("C14", "callbacks not run exactly once at build time in a program: " \o key)
             /\ (v.prop = "C15" /\ E.status = "nil" /\ ~v.sametoks) => Report("C15", "comments change the code tokens of a program: " \o key)
             /\ (v.prop = "C15" /\ E.status = "nil" /\ ~v.cmtok) => Report("C15", "comment text lost or in the wrong style in a program: " \o key)
        \* C15 (file level): package comments are the package doc, headers are kept apart, the canonical path is well formed
        /\ (E.c15f.on /\ ~E.c15f.docok) => Report("C15", "package comments are not exactly the package doc")
        /\ (E.c15f.on /\ ~E.c15f.headok) => Report("C15", "header comment lost or part of the package doc")
        /\ (E.c15f.on /\ ~E.c15f.canonok) => Report("C15", "canonical import path annotation")
        /\ (E.c15r.on /\ ~E.c15r.docok) => Report("C15", "NoFormat: package comments are not exactly the package doc")
        /\ (E.c15r.on /\ ~E.c15r.headok) => Report("C15", "NoFormat: header comment lost or part of the package doc")
        /\ (E.c15r.on /\ ~E.c15r.canonok) => Report("C15", "NoFormat: canonical import path annotation")
        \* C02: a successful render is valid Go and exactly gofmt of the raw rendering; invalid compositions are errors
        /\ (E.status = "panic" \/ E.rawstatus = "panic") => Report("C02", "panic")
        /\ (E.status = "nil" /\ E.rawstatus = "nil" /\ ~E.fmteq) => Report("C02", "output is not gofmt of the raw rendering")
        /\ (E.status = "nil" /\ ~E.parses) => Report("C02", "nil but the output does not parse")
        /\ (E.status = "nil" /\ E.rawstatus = "nil" /\ ~E.fmtok) => Report("C02", "invalid composition emitted as if valid")
        /\ (E.status = "error" /\ E.rawstatus = "nil" /\ E.fmtok) => Report("C02", "formattable rendering reported as an error")
        /\ (~dirty /\ last # E.out) => Report("C08", "repeat")
        /\ imps' = obsT
        /\ bound' = Bind(bound, Quals(refs, bare))
        /\ last' = E.out
  /\ dirty' = FALSE
  /\ UNCHANGED <<tid, cf, hints, body, claims, anons>>

FragEv ==
  /\ IsEv("Frag")
  /\ LET pred == IF E.skip THEN <<<<>>, <<>>>> ELSE RenderFragment(Cfg, E.tree, imps)
         refs == SeqSet(E.refs)
         bare == SeqSet(E.bare)
         obsT == TableFn(E.table)
     IN /\ (~E.skip /\ pred[2] # obsT) => Report("DRIFT", "table")
        /\ MonRefs(<<>>, refs, bare, FALSE) = TRUE
        /\ (E.status = "panic") => Report("C02", "panic in fragment render")
        /\ (E.status = "nil" /\ ~E.parses) => Report("C02", "fragment: nil but the output does not parse")
        /\ imps' = obsT
        /\ bound' = Bind(bound, Quals(refs, bare))
  /\ dirty' = TRUE
  /\ UNCHANGED <<tid, cf, hints, body, claims, anons, last>>

Next == New \/ ImportName \/ ImportAlias \/ Anon \/ PreambleEv \/ Add \/ RenderEv \/ FragEv
Spec == Init /\ [][Next]_vars
Accepted == TLCGet("stats").diameter - 1 = Len(Trace)
=============================================================================
