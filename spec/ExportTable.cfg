SPECIFICATION Spec
CONSTANTS
  Legacy = {}
