SPECIFICATION Spec
CONSTANTS
  Legacy = {}
  Universe = "lists"
  MaxArity = 3
INVARIANT Holds
CONSTRAINT Emit
CHECK_DEADLOCK FALSE
