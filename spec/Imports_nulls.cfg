SPECIFICATION Spec
CONSTANTS
  Legacy = {}
  Paths = {"x/d", "y/d", "fmt"}
  PathInfo <- MCPathInfo
  Sorted <- MCSorted
  Locals = {"", "x/d"}
  PrefixPool = {""}
  HintNames = {".", "q"}
  BodyPool <- BodyNulls
  FragPool <- NoFrags
  FileMeta <- Meta0
  Preambles <- Pre0
  MaxOps = 4
  MaxBody = 2
  MaxRenders = 1
VIEW view
INVARIANTS C03_Resolve C04_Exact C05_UniqueLegal C06_LocalDot C19_Cgo C08_StableNames
PROPERTY C08_BoundNeverChanges
CONSTRAINT Emit
CHECK_DEADLOCK FALSE
