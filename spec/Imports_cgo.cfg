SPECIFICATION Spec
CONSTANTS
  Legacy = {}
  Paths = {"C", "x/d", "fmt"}
  PathInfo <- MCPathInfo
  Sorted <- MCSorted
  Locals = {""}
  PrefixPool = {"", "pkg"}
  HintNames = {".", "c", "d"}
  BodyPool <- BodyRefs
  FragPool <- NoFrags
  FileMeta <- Meta0
  Preambles <- Pre012
  MaxOps = 4
  MaxBody = 3
  MaxRenders = 1
VIEW view
INVARIANTS C03_Resolve C04_Exact C05_UniqueLegal C06_LocalDot C19_Cgo C08_StableNames
PROPERTY C08_BoundNeverChanges
CONSTRAINT Emit
CHECK_DEADLOCK FALSE
