---------------------------- MODULE ExportTable ----------------------------
(* Writes the construct table of the specification (Jen!Table) as JSON, so that the Go-side
   generators draw constructs from the specification's table and not from jennifer's. *)
EXTENDS Jen, Json
TableFlat == [n \in GroupNames |-> [open |-> Flat(Table[n].open), close |-> Flat(Table[n].close), sep |-> Flat(Table[n].sep),
                                    multi |-> Table[n].multi, arity |-> Table[n].arity]]
ASSUME JsonSerialize("table.json", [groups |-> TableFlat, keywords |-> KeywordTokens, idents |-> IdentTokens])
VARIABLE x
Spec == x = 0 /\ [][UNCHANGED x]_x
=============================================================================
