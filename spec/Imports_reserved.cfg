SPECIFICATION Spec
CONSTANTS
  Legacy = {}
  Paths = {"x/go", "x/any", "x/d"}
  PathInfo <- MCPathInfo
  Sorted <- MCSorted
  Locals = {""}
  PrefixPool = {"", "pkg"}
  HintNames = {"go", "any", "int", "err", "d"}
  BodyPool <- BodyRefs
  FragPool <- NoFrags
  FileMeta <- Meta0
  Preambles <- Pre0
  MaxOps = 4
  MaxBody = 3
  MaxRenders = 1
VIEW view
INVARIANTS C03_Resolve C04_Exact C05_UniqueLegal C06_LocalDot C19_Cgo C08_StableNames
PROPERTY C08_BoundNeverChanges
CONSTRAINT Emit
CHECK_DEADLOCK FALSE
