----------------------------- MODULE JenOutput -----------------------------
(***************************************************************************)
(* The output pipeline of File.Render / File.Save / Statement and Group    *)
(* Render / RenderWithFile as a state machine with injected faults (C10,   *)
(* and the pipeline part of C02):                                          *)
(*    RenderBody -> Assemble -> Format (ok | fail | skipped by NoFormat)   *)
(*               -> Write* (ok | fail at the k-th call) -> Return          *)
(*    Save = Render into a private buffer -> WriteFile (ok | fs error)     *)
(* gofmt is an uninterpreted partial function: params.valid says whether   *)
(* it is defined on the raw rendering.                                     *)
(***************************************************************************)
EXTENDS Integers, Sequences, FiniteSets, TLC, Json, CSV

CONSTANT Chunks      \* number of Write calls a successful render makes (the implementation: 1)

Entries == {"File.Render", "File.Save", "Statement.Render", "Statement.RenderWithFile", "Group.Render", "Group.RenderWithFile"}
Targets == {"absent", "present", "nearsame", "isdir", "missingdir", "parentisfile"}   \* nearsame: an existing file that differs from the output only by white space
Params == [entry : Entries \ {"File.Save"}, valid : BOOLEAN, noformat : BOOLEAN, failAt : 0..2, target : {"none"}]
          \cup [entry : {"File.Save"}, valid : BOOLEAN, noformat : BOOLEAN, failAt : {0}, target : Targets]
InDomain(p) == p.noformat => p.entry \in {"File.Render", "File.Save"}     \* only a File has NoFormat

VARIABLES p,        \* the parameters of this call
          pc,       \* start | body | assembled | formatted | writing | saving | done
          calls,    \* Write calls made on the caller's writer so far
          okbytes,  \* chunks the caller's writer accepted
          result,   \* none | nil | fmterror | writeerror | fserror
          fs        \* the Save target: absent | old | new | dir
vars == <<p, pc, calls, okbytes, result, fs>>

FsInit(t) == CASE t \in {"present", "nearsame"} -> "old" [] t = "isdir" -> "dir" [] OTHER -> "absent"
Init == /\ p \in {x \in Params : InDomain(x)} /\ pc = "start" /\ calls = 0 /\ okbytes = 0 /\ result = "none"
        /\ fs = FsInit(p.target)

RenderBody == pc = "start" /\ pc' = "body" /\ UNCHANGED <<p, calls, okbytes, result, fs>>
Assemble   == pc = "body" /\ pc' = "assembled" /\ UNCHANGED <<p, calls, okbytes, result, fs>>
FormatOK   == /\ pc = "assembled" /\ (p.noformat \/ p.valid)
              /\ pc' = (IF p.entry = "File.Save" THEN "saving" ELSE "writing")
              /\ UNCHANGED <<p, calls, okbytes, result, fs>>
FormatFail == /\ pc = "assembled" /\ ~p.noformat /\ ~p.valid
              /\ pc' = "done" /\ result' = "fmterror" /\ UNCHANGED <<p, calls, okbytes, fs>>
WriteOK    == /\ pc = "writing" /\ calls < Chunks /\ calls + 1 # p.failAt
              /\ calls' = calls + 1 /\ okbytes' = okbytes + 1
              /\ UNCHANGED <<p, pc, result, fs>>
WriteFail  == /\ pc = "writing" /\ calls < Chunks /\ calls + 1 = p.failAt
              /\ calls' = calls + 1 /\ pc' = "done" /\ result' = "writeerror"
              /\ UNCHANGED <<p, okbytes, fs>>
WriteDone  == /\ pc = "writing" /\ calls = Chunks /\ pc' = "done" /\ result' = "nil"
              /\ UNCHANGED <<p, calls, okbytes, fs>>
SaveFile   == /\ pc = "saving" /\ pc' = "done"
              /\ IF p.target \in {"absent", "present", "nearsame"} THEN fs' = "new" /\ result' = "nil"
                 ELSE fs' = fs /\ result' = "fserror"
              /\ UNCHANGED <<p, calls, okbytes>>
Next == RenderBody \/ Assemble \/ FormatOK \/ FormatFail \/ WriteOK \/ WriteFail \/ WriteDone \/ SaveFile
Spec == Init /\ [][Next]_vars

(* ------------------------------ properties ------------------------------ *)
NoWriteBeforeFormat        == pc \in {"start", "body", "assembled"} => (calls = 0 /\ fs = FsInit(p.target))
FailedRenderWritesNothing  == result = "fmterror" => (calls = 0 /\ okbytes = 0)
SaveLeavesTargetOnFailure  == result = "fmterror" => fs = FsInit(p.target)
WriterErrorReturned        == (pc = "done" /\ p.failAt # 0 /\ p.failAt <= Chunks /\ (p.noformat \/ p.valid)) => result = "writeerror"
FsErrorReturned            == (pc = "done" /\ p.entry = "File.Save" /\ (p.noformat \/ p.valid) /\ p.target \notin {"absent", "present", "nearsame"}) => result = "fserror"
SuccessWritesExactlyOutput == result = "nil" => (IF p.entry = "File.Save" THEN fs = "new" /\ calls = 0 ELSE okbytes = Chunks)
NilOnlyWhenFormatted       == result = "nil" => (p.noformat \/ p.valid)

\* the outcome as a function of the parameters (what the trace spec predicts)
Outcome(q) ==
  IF ~q.noformat /\ ~q.valid THEN [result |-> "fmterror", calls |-> 0, fs |-> FsInit(q.target)]
  ELSE IF q.entry = "File.Save"
       THEN IF q.target \in {"absent", "present", "nearsame"} THEN [result |-> "nil", calls |-> 0, fs |-> "new"]
            ELSE [result |-> "fserror", calls |-> 0, fs |-> FsInit(q.target)]
       ELSE IF q.failAt # 0 /\ q.failAt <= Chunks THEN [result |-> "writeerror", calls |-> q.failAt, fs |-> "absent"]
            ELSE [result |-> "nil", calls |-> Chunks, fs |-> "absent"]
OutcomeAgrees == pc = "done" => Outcome(p) = [result |-> result, calls |-> calls, fs |-> fs]

OutFile == "output_cases.ndjson"
Emit == pc = "done" => CSVWrite("%1$s", <<ToJson(p)>>, OutFile)
=============================================================================
