SPECIFICATION GSpec
CONSTANTS
  Alphabet = {97, 122, 48, 57, 47, 45, 233}
  MaxLen = 6
INVARIANTS GuessLegal GuessLastElement GuessTrailingSlash
CHECK_DEADLOCK FALSE
