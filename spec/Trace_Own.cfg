SPECIFICATION Spec
CONSTANTS
  Legacy = {}
  TraceFile = "trace.ndjson"
  VFile = "viol.ndjson"
POSTCONDITION Accepted
CHECK_DEADLOCK FALSE
