---------------------------- MODULE MC_Imports ----------------------------
(* Bounded universes for the import family (C03 C04 C05 C06 C08 C18 C19).  *)
EXTENDS JenSys

Master == <<"C", "crypto/rand", "fmt", "loc/AL", "loc/al", "loc/al/x", "math/rand", "x/any", "x/d", "x/fmt",
            "x/go", "x/loc/al", "y/d", "z/d1">>          \* byte order
Info(std, guess, q) == [std |-> std, guess |-> guess, quoted |-> q]
MCPathInfo ==
  [p \in {Master[i] : i \in DOMAIN Master} |->
     CASE p = "C"           -> Info("", "c", "\"C\"")
       [] p = "crypto/rand" -> Info("rand", "rand", "\"crypto/rand\"")
       [] p = "fmt"         -> Info("fmt", "fmt", "\"fmt\"")
       [] p = "loc/AL"      -> Info("", "al", "\"loc/AL\"")
       [] p = "loc/al"      -> Info("", "al", "\"loc/al\"")
       [] p = "loc/al/x"    -> Info("", "x", "\"loc/al/x\"")
       [] p = "math/rand"   -> Info("rand", "rand", "\"math/rand\"")
       [] p = "x/any"       -> Info("", "any", "\"x/any\"")
       [] p = "x/d"         -> Info("", "d", "\"x/d\"")
       [] p = "x/fmt"       -> Info("", "fmt", "\"x/fmt\"")
       [] p = "x/go"        -> Info("", "go", "\"x/go\"")
       [] p = "x/loc/al"    -> Info("", "al", "\"x/loc/al\"")
       [] p = "y/d"         -> Info("", "d", "\"y/d\"")
       [] p = "z/d1"        -> Info("", "d1", "\"z/d1\"")]
Sym(p) == "S" \o ToString(CHOOSE i \in DOMAIN Master : Master[i] = p)
MCSorted == SelectSeq(Master, LAMBDA p : p \in Paths)

\* body items: a declaration that references p;  null-ness wrappers for C04
VarQ(p)      == Stmt(<<Kw("var"), Id("_"), Op("="), QualG(p, Sym(p))>>)
VarCall(p)   == Stmt(<<Kw("var"), Id("_"), Op("="), QualG(p, Sym(p)), Grp("call", <<Qual(p, Sym(p))>>)>>)
\* Dict pair whose value is Null(): the pair is omitted, its key must not be imported
NullPair(p)  == Stmt(<<Kw("var"), Id("_"), Op("="), Id("T"),
                       Grp("values", <<Dict(<<Pair(Qual(p, Sym(p)), Stmt(<<NullT>>))>>, <<1>>)>>)>>)
LivePair(p, q) == Stmt(<<Kw("var"), Id("_"), Op("="), Id("T"),
                       Grp("values", <<Dict(<<Pair(Qual(p, Sym(p)), Qual(q, Sym(q)))>>, <<1>>)>>)>>)
\* a Dict that IS rendered (one live pair) next to a pair that is omitted: the omitted pair's key must not be imported
MixedPair(p, q) == Stmt(<<Kw("var"), Id("_"), Op("="), Id("T"),
                       Grp("values", <<Dict(<<Pair(Stmt(<<LitT("1")>>), Qual(p, Sym(p))), Pair(Qual(q, Sym(q)), Stmt(<<NullT>>))>>, <<1, 2>>)>>)>>)
MixedPairRev(p, q) == Stmt(<<Kw("var"), Id("_"), Op("="), Id("T"),
                       Grp("values", <<Dict(<<Pair(Qual(q, Sym(q)), Stmt(<<NullT>>)), Pair(Stmt(<<LitT("1")>>), Qual(p, Sym(p)))>>, <<2, 1>>)>>)>>)
CaseRef(p)   == Stmt(<<Kw("func"), Id("f" \o Sym(p)), Grp("params", <<>>),
                       Grp("block", <<Stmt(<<Grp("switch", <<>>), Grp("block",
                          <<Stmt(<<Grp("case", <<Qual(p, Sym(p))>>), Grp("block", <<Qual(p, Sym(p))>>)>>)>>)>>)>>)>>)

BodyRefs     == {VarQ(p) : p \in Paths}
BodyNulls    == {VarQ(p) : p \in Paths} \cup {NullPair(p) : p \in Paths}
                \cup {LivePair(p, q) : p, q \in Paths} \cup {CaseRef(p) : p \in Paths}
                \cup {MixedPair(p, q) : p, q \in Paths} \cup {MixedPairRev(pq[1], pq[2]) : pq \in {x \in Paths \X Paths : x[1] # x[2]}}
Frags        == {Stmt(<<Id("x"), Op("="), QualG(p, Sym(p))>>) : p \in Paths}
NoFrags      == {}
Meta0 == {[headers |-> <<>>, comments |-> <<>>, canonical |-> ""]}
MetaAll == {[headers |-> h, comments |-> c, canonical |-> k] :
              h \in {<<>>, <<Cmt("Code generated. DO NOT EDIT.")>>, <<Cmt("h1"), CmtS("h2\nh3", "block")>>},
              c \in {<<>>, <<Cmt("Package main does things.")>>, <<Cmt("Package main."), Cmt("More.")>>},
              k \in {"", "example.com/canon"}}
Pre0 == {<<>>}
Pre012 == {<<>>, <<Cmt("#include <a.h>")>>, <<Cmt("#include <a.h>"), CmtS("int f();\nint g();", "block")>>, <<CmtS("#include <m.h>\n", "blocknl")>>}

Invs == C03_Resolve /\ C04_Exact /\ C05_UniqueLegal /\ C06_LocalDot /\ C19_Cgo /\ C08_StableNames

\* export: one line per explored history that ends in an observation
OutFile == "hists.ndjson"
Emit == (hist[Len(hist)].a \in {"Render", "Frag"} /\ \E i \in DOMAIN hist : hist[i].a \in {"Add", "Frag"})
          => CSVWrite("%1$s", <<ToJson(hist)>>, OutFile)
=============================================================================
