------------------------------ MODULE MC_Guess ------------------------------
(* (A) for JenGuess: over every class sequence up to MaxLen the guess is a legal identifier spelling *)
EXTENDS JenGuess

CONSTANTS Alphabet, MaxLen     \* Alphabet: a few code points per class (letter, digit, slash, punctuation, non-ASCII)
VARIABLE path
GInit == path = <<>>
GNext == Len(path) < MaxLen /\ \E c \in Alphabet : path' = Append(path, c)
GSpec == GInit /\ [][GNext]_path
GuessLegal == LET g == GuessCodes(path) IN
                /\ g # <<>>
                /\ \A i \in DOMAIN g : Keep(g[i])
                /\ ~IsDigit(g[1])
\* the guess depends on the last element only, and a trailing slash does not change it
GuessLastElement == GuessCodes(path) = GuessCodes(LastElem(path))
GuessTrailingSlash == (path # <<>> /\ path[Len(path)] # Slash) => GuessCodes(Append(path, Slash)) = GuessCodes(path)
=============================================================================
