------------------------------ MODULE JenForms ------------------------------
(***************************************************************************)
(* C14: forms of a construct and the timing of user callbacks.             *)
(* A construct can be built by the package function, a *Statement method,  *)
(* a *Group method (appends the new statement to the group and returns     *)
(* it) and - variadic ones - a ...Func variant whose callback fills the    *)
(* group.  The model is a small-step interpreter of "building a tree with  *)
(* a choice of form at every node" that produces the event log a correct   *)
(* library must produce:                                                   *)
(*    begin(id) cb(id) <children built inside the callback> end(id)        *)
(* for a ...Func node (the callback runs exactly once, synchronously       *)
(* inside the constructing call) and  <children> begin(id) end(id)  for    *)
(* the other forms (arguments are evaluated before the call); rendering    *)
(* produces  render-begin render-end  with nothing in between.             *)
(* The heap part: the Group form appends THE statement it returns.         *)
(***************************************************************************)
EXTENDS Integers, Sequences, FiniteSets, TLC, Json, CSV

CONSTANTS MaxDepth, MaxKids, Names
\* the variadic constructs that deliberately have no ...Func variant
NoFuncVariant == {"make"}
\* "do" is Do(f): it exists only with a callback, which writes the children onto the new statement
NameFv == {nf \in Names \X BOOLEAN : nf[1] = "do" => nf[2]}

Ev(k, id) == [e |-> k, id |-> id]
Leaf(id) == [k |-> "leaf", id |-> id]
NodeT(id, name, fv, kids) == [k |-> "node", id |-> id, name |-> name, fv |-> fv, kids |-> kids]

RECURSIVE Trees(_, _)
Trees(d, path) ==
  IF d = 0 THEN {Leaf(path)}
  ELSE {Leaf(path)} \cup
       UNION { { NodeT(path, nf[1], nf[2], <<>>) : nf \in NameFv } }
       \cup UNION { { NodeT(path, nf[1], nf[2], <<k1>>) : nf \in NameFv, k1 \in Trees(d - 1, path \o ".1") } }
       \cup (IF MaxKids < 2 THEN {} ELSE
             UNION { { NodeT(path, nf[1], nf[2], <<k1, k2>>) : nf \in NameFv,
                       k1 \in Trees(d - 1, path \o ".1"), k2 \in Trees(d - 1, path \o ".2") } })

\* the log a correct library produces while the tree is built
RECURSIVE BuildLog(_), KidsLog(_)
KidsLog(ks) == IF ks = <<>> THEN <<>> ELSE BuildLog(Head(ks)) \o KidsLog(Tail(ks))
BuildLog(t) ==
  IF t.k = "leaf" THEN <<>>
  ELSE IF t.fv THEN <<Ev("begin", t.id), Ev("cb", t.id)>> \o KidsLog(t.kids) \o <<Ev("end", t.id)>>
       ELSE KidsLog(t.kids) \o <<Ev("begin", t.id), Ev("end", t.id)>>
FullLog(t) == BuildLog(t) \o <<Ev("render-begin", "")>> \o <<Ev("render-end", "")>>

(* ---- properties of logs (checked on the model's logs; the trace spec checks the real log = FullLog) ---- *)
Count(log, k, id) == Cardinality({i \in DOMAIN log : log[i] = Ev(k, id)})
Pos(log, k, id) == CHOOSE i \in DOMAIN log : log[i] = Ev(k, id)
RECURSIVE FvIds(_)
FvIds(t) == IF t.k = "leaf" THEN {} ELSE (IF t.fv THEN {t.id} ELSE {}) \cup UNION {FvIds(t.kids[i]) : i \in DOMAIN t.kids}
CallbackOnceInsideCall(t) ==
  LET log == FullLog(t) IN
  \A id \in FvIds(t) : /\ Count(log, "cb", id) = 1
                       /\ Pos(log, "begin", id) < Pos(log, "cb", id) /\ Pos(log, "cb", id) < Pos(log, "end", id)
NoCallbackWhileRendering(t) ==
  LET log == FullLog(t)  rb == Pos(log, "render-begin", "") IN \A i \in DOMAIN log : i > rb => log[i].e # "cb"

VARIABLE t
Init == t \in Trees(MaxDepth, "1")
Next == UNCHANGED t
Spec == Init /\ [][Next]_t
Holds == CallbackOnceInsideCall(t) /\ NoCallbackWhileRendering(t)
OutFile == "forms.ndjson"
Emit == CSVWrite("%1$s", <<ToJson(t)>>, OutFile)
=============================================================================
