SPECIFICATION Spec
CONSTANTS
  Legacy = {}
  Paths = {"x/d", "y/d"}
  PathInfo <- MCPathInfo
  Sorted <- MCSorted
  FilePool <- FileSettingsSmall
  NFiles = 2
  CmtPool <- CmtPoolSmall
  MaxMeta = 1
  HintNames = {"d", "."}
  MaxCells = 2
  MaxOps = 4
  SysExport = FALSE
  MaxItems = 5
VIEW view
INVARIANTS Sys_Resolve Sys_Unique Sys_LocalDot Sys_Stable
PROPERTIES Sys_BoundNeverChanges Sys_FilesIndependent Sys_RenderPure Sys_PlainTouchesNoFile Sys_CloneIsolation Sys_ContentsOnly
CHECK_DEADLOCK FALSE
