------------------------------- MODULE Jen -------------------------------
(***************************************************************************)
(* Core specification of dave/jennifer: the Code datatype, null-ness,      *)
(* rendering to pieces with the File's import registry threaded through    *)
(* the traversal (exactly as render(f, w, s) does), File.register, the     *)
(* import block and the assembly of a whole file.                          *)
(*                                                                         *)
(* Implementation-shaped: one operator per Go function, the same order of  *)
(* side effects.  Deliberate deviations of the code from the listed        *)
(* properties are NAMED and switched by the constant Legacy (a set of      *)
(* names); the positive configurations run with the deviations that the    *)
(* tree under test still has, the negative ones switch one on and must     *)
(* produce its counterexample.                                             *)
(*                                                                         *)
(* The construct table below is written from the README / the Go grammar,  *)
(* not derived from genjen/data.go.                                        *)
(***************************************************************************)
EXTENDS Integers, Sequences, FiniteSets, TLC, SequencesExt

CONSTANT Legacy   \* subset of LegacyNames
LegacyNames == {"PrefixAfterUnique", "PrefixOnDot", "NoAnyComparable", "NilDeref",
                "BlankBraces", "CDot", "LateDot", "DictCollapse", "CNameFree"}

(* ------------------------------ pieces ---------------------------------- *)
\* Rendering produces a sequence of pieces; Flat() gives the raw bytes.
\* classes: t = token text, sp = blank, nl = newline, lc = line comment,
\*          bc = block comment, rc = raw comment (user supplied marker)
T(s)  == [c |-> "t",  s |-> s]
SP    == [c |-> "sp", s |-> " "]
NL    == [c |-> "nl", s |-> "\n"]
\* (divide and conquer: TLC interns every intermediate string, a left fold would be quadratic)
RECURSIVE FlatR(_, _, _)
FlatR(ps, lo, hi) == IF lo > hi THEN "" ELSE IF lo = hi THEN ps[lo].s
                     ELSE LET mid == (lo + hi) \div 2 IN FlatR(ps, lo, mid) \o FlatR(ps, mid + 1, hi)
Flat(ps) == FlatR(ps, 1, Len(ps))

(* ------------------------- the construct table -------------------------- *)
\* name |-> open, close, sep (pieces), multi, arity (-1 = variadic)
G(o, c, s, m, a) == [open |-> o, close |-> c, sep |-> s, multi |-> m, arity |-> a]
Builtin(n, a) == G(<<T(n), T("(")>>, <<T(")")>>, <<T(",")>>, FALSE, a)
Table == [
  parens    |-> G(<<T("(")>>, <<T(")")>>, <<>>, FALSE, 1),
  list      |-> G(<<>>, <<>>, <<T(",")>>, FALSE, -1),
  values    |-> G(<<T("{")>>, <<T("}")>>, <<T(",")>>, FALSE, -1),
  index     |-> G(<<T("[")>>, <<T("]")>>, <<T(":")>>, FALSE, -1),
  block     |-> G(<<T("{")>>, <<T("}")>>, <<>>, TRUE, -1),
  defs      |-> G(<<T("(")>>, <<T(")")>>, <<>>, TRUE, -1),
  call      |-> G(<<T("(")>>, <<T(")")>>, <<T(",")>>, FALSE, -1),
  params    |-> G(<<T("(")>>, <<T(")")>>, <<T(",")>>, FALSE, -1),
  assert    |-> G(<<T("."), T("(")>>, <<T(")")>>, <<>>, FALSE, 1),
  map       |-> G(<<T("map"), T("[")>>, <<T("]")>>, <<>>, FALSE, 1),
  if        |-> G(<<T("if"), SP>>, <<>>, <<T(";")>>, FALSE, -1),
  return    |-> G(<<T("return"), SP>>, <<>>, <<T(",")>>, FALSE, -1),
  for       |-> G(<<T("for"), SP>>, <<>>, <<T(";")>>, FALSE, -1),
  switch    |-> G(<<T("switch"), SP>>, <<>>, <<T(";")>>, FALSE, -1),
  interface |-> G(<<T("interface"), T("{")>>, <<T("}")>>, <<>>, TRUE, -1),
  struct    |-> G(<<T("struct"), T("{")>>, <<T("}")>>, <<>>, TRUE, -1),
  case      |-> G(<<T("case"), SP>>, <<T(":")>>, <<T(",")>>, FALSE, -1),
  append    |-> Builtin("append", -1),
  cap       |-> Builtin("cap", 1),
  close     |-> Builtin("close", 1),
  clear     |-> Builtin("clear", 1),
  min       |-> Builtin("min", -1),
  max       |-> Builtin("max", -1),
  complex   |-> Builtin("complex", 2),
  copy      |-> Builtin("copy", 2),
  delete    |-> Builtin("delete", 2),
  imag      |-> Builtin("imag", 1),
  len       |-> Builtin("len", 1),
  make      |-> Builtin("make", -1),
  new       |-> Builtin("new", 1),
  panic     |-> Builtin("panic", 1),
  print     |-> Builtin("print", -1),
  println   |-> Builtin("println", -1),
  real      |-> Builtin("real", 1),
  recover   |-> Builtin("recover", 0),
  types     |-> G(<<T("[")>>, <<T("]")>>, <<T(",")>>, FALSE, -1),
  union     |-> G(<<>>, <<>>, <<T("|")>>, FALSE, -1),
  qual      |-> G(<<>>, <<>>, <<T(".")>>, FALSE, 2) ]
GroupNames    == DOMAIN Table
VariadicNames == {n \in GroupNames : Table[n].arity = -1}
ListNames     == VariadicNames   \* the "list-like constructs" of C13 (+ custom)
KeywordTokens == {"break", "default", "func", "select", "chan", "else", "const", "fallthrough",
                  "type", "continue", "var", "goto", "defer", "go", "range"}
IdentTokens   == {"bool", "byte", "complex64", "complex128", "error", "float32", "float64", "int",
                  "int8", "int16", "int32", "int64", "rune", "string", "uint", "uint8", "uint16",
                  "uint32", "uint64", "uintptr", "true", "false", "iota", "nil", "err", "any", "comparable"}

\* Go's keywords and universe scope: the reserved-word oracle of C05
GoKeywords == {"break", "default", "func", "interface", "select", "case", "defer", "go", "map", "struct",
               "chan", "else", "goto", "package", "switch", "const", "fallthrough", "if", "range", "type",
               "continue", "for", "import", "return", "var"}
GoUniverse == {"bool", "byte", "complex64", "complex128", "error", "float32", "float64", "int", "int8",
               "int16", "int32", "int64", "rune", "string", "uint", "uint8", "uint16", "uint32", "uint64",
               "uintptr", "any", "comparable", "true", "false", "iota", "nil", "append", "cap", "close",
               "clear", "min", "max", "complex", "copy", "delete", "imag", "len", "make", "new", "panic",
               "print", "println", "real", "recover"}
\* jennifer's own list (reserved.go): the oracle above plus "err"; the pinned tree lacked any/comparable
Reserved == (GoKeywords \cup GoUniverse \cup {"err"})
            \ (IF "NoAnyComparable" \in Legacy THEN {"any", "comparable"} ELSE {})

(* --------------------------- Code constructors -------------------------- *)
NilC          == [k |-> "nil"]
Tok(t, v)     == [k |-> "tok", t |-> t, v |-> v]
Id(n)         == Tok("id", n)
Op(o)         == Tok("op", o)
Kw(w)         == Tok("kw", w)
LitT(v)       == Tok("lit", v)          \* v = the literal's text (JenLit decides the forms)
Pkg(p)        == Tok("pkg", p)
NullT         == Tok("null", "")
EmptyT        == Tok("op", "")
LineT         == Tok("layout", "\n")
Stmt(items)   == [k |-> "stmt", items |-> items]
Grp(n, items) == [k |-> "grp", name |-> n, items |-> items]
Custom(o, c, s, m, items) == [k |-> "grp", name |-> "custom", items |-> items,
                              open |-> o, close |-> c, sep |-> s, multi |-> m]
QualG(p, n)   == Grp("qual", <<Pkg(p), Id(n)>>)
Qual(p, n)    == Stmt(<<QualG(p, n)>>)
Pair(key, v)  == [k |-> "pair", items |-> <<key, v>>]
\* items = pairs in the order the first pass visits them; order = indices of items sorted by key text
Dict(pairs, order) == [k |-> "dict", items |-> pairs, order |-> order]
Cmt(v)        == [k |-> "cmt", v |-> v, st |-> "line"]   \* st: line | block | blocknl | raw
CmtS(v, st)   == [k |-> "cmt", v |-> v, st |-> st]
TagC(v)       == [k |-> "tag", v |-> v]                   \* v = "" for an empty map, else the literal text

GDef(g) == IF g.name = "custom"
           THEN [open  |-> IF g.open = "" THEN <<>> ELSE <<T(g.open)>>,
                 close |-> IF g.close = "" THEN <<>> ELSE <<T(g.close)>>,
                 sep   |-> IF g.sep = "" THEN <<>> ELSE <<T(g.sep)>>,
                 multi |-> g.multi, arity |-> -1]
           ELSE Table[g.name]

(* ------------------------------ File state ------------------------------ *)
\* cfg   : [local, prefix, hints : path -> def, paths : path -> [std, guess]]  (constant during a render)
\* imps  : path -> def          (File.imports: persists between renders, mutated by rendering)
\* def   : [name, alias]
None == [name |-> "", alias |-> FALSE]
Def(n, a) == [name |-> n, alias |-> a]
Find(f, p) == IF p \in DOMAIN f THEN f[p] ELSE None
Put(f, k, v) == [x \in DOMAIN f \cup {k} |-> IF x = k THEN v ELSE f[x]]
Hint(cfg, p) == Find(cfg.hints, p)
IsLocal(cfg, p) == cfg.local = p
\* tokens.go: a package token is null for dot-imports and for the local path
IsDot(cfg, imps, p) ==
  IF "CDot" \notin Legacy /\ p = "C" THEN FALSE
  ELSE IF "LateDot" \notin Legacy /\ Find(imps, p).name \notin {"", "_"}
       THEN Find(imps, p).name = "." /\ Find(imps, p).alias
       ELSE Hint(cfg, p).name = "." /\ Hint(cfg, p).alias
\* the name C belongs to the cgo pseudo-package (the pinned tree handed it to whoever asked first: Legacy CNameFree)
IsValidAlias(imps, a) == a = "." \/ (a \notin Reserved /\ ("CNameFree" \in Legacy \/ a # "C") /\ \A q \in DOMAIN imps : imps[q].name # a)
Suffix(n, i) == IF i = 0 THEN n ELSE n \o ToString(i)
\* the name finally stored for candidate u of (name, alias)
Final(cfg, cand, u) ==
  LET al == cand.alias \/ u # cand.name IN
  IF cfg.prefix # "" /\ al /\ ("PrefixOnDot" \in Legacy \/ u # ".") THEN cfg.prefix \o "_" \o u ELSE u
CandOK(cfg, imps, cand, i) ==
  /\ IsValidAlias(imps, Suffix(cand.name, i))
  /\ ("PrefixAfterUnique" \in Legacy \/ IsValidAlias(imps, Final(cfg, cand, Suffix(cand.name, i))))
\* File.register (file.go): returns <<imports', name>>
Reg(cfg, imps, p) ==
  IF IsLocal(cfg, p) THEN <<imps, "">>
  ELSE LET cur == Find(imps, p) IN
  IF cur.name # "" /\ cur.name # "_" THEN <<imps, cur.name>>
  ELSE IF p = "C" THEN <<Put(imps, "C", Def("C", FALSE)), "C">>
  ELSE LET h    == Hint(cfg, p)
           cand == IF h.name # "" THEN h
                   ELSE IF cfg.paths[p].std # "" THEN Def(cfg.paths[p].std, FALSE)
                   ELSE Def(cfg.paths[p].guess, TRUE)
           K    == Cardinality(DOMAIN imps) + Cardinality(Reserved) + 2
           i    == CHOOSE i \in 0..K : CandOK(cfg, imps, cand, i) /\ \A j \in 0..(i - 1) : ~CandOK(cfg, imps, cand, j)
           u    == Suffix(cand.name, i)
           fin  == Final(cfg, cand, u)
       IN <<Put(imps, p, Def(fin, cand.alias \/ u # cand.name)), fin>>

(* ------------------------- null-ness and rendering ---------------------- *)
RECURSIVE IsNull(_, _, _), AllNull(_, _, _), R(_, _, _, _), GI(_, _, _, _, _, _, _), SI(_, _, _, _, _, _),
          DictKeys(_, _, _, _, _, _), DictOut(_, _, _, _, _, _, _)
AllNull(cfg, imps, items) == \A i \in DOMAIN items : IsNull(cfg, imps, items[i])
IsNull(cfg, imps, c) ==
  CASE c.k = "nil"  -> TRUE      \* README: nil behaves like Null() (the pinned tree dereferenced it: Legacy NilDeref)
    [] c.k = "tok"  -> IF c.t = "pkg" THEN IsDot(cfg, imps, c.v) \/ IsLocal(cfg, c.v) ELSE c.t = "null"
    [] c.k = "stmt" -> AllNull(cfg, imps, c.items)
    [] c.k = "grp"  -> GDef(c).open = <<>> /\ GDef(c).close = <<>> /\ AllNull(cfg, imps, c.items)
    [] c.k = "dict" -> \A i \in DOMAIN c.items : IsNull(cfg, imps, c.items[i].items[1]) \/ IsNull(cfg, imps, c.items[i].items[2])
    [] c.k = "tag"  -> c.v = ""
    [] c.k = "cmt"  -> FALSE

\* does evaluating isNull / render of c dereference a nil item?  (only meaningful under Legacy NilDeref)
RECURSIVE NilPanics(_, _, _)
NilPanics(cfg, imps, c) ==
  CASE c.k = "stmt" -> \E i \in DOMAIN c.items : c.items[i].k = "nil" \/ NilPanics(cfg, imps, c.items[i])
    [] c.k = "grp"  -> \E i \in DOMAIN c.items : NilPanics(cfg, imps, c.items[i])
                       \/ (c.items[i].k = "nil" /\ ((c.name = "types") \/ (GDef(c).open = <<>> /\ GDef(c).close = <<>>)))
    [] OTHER -> FALSE

\* renderItems (group.go): returns <<pieces, allNull, imports>>
GI(cfg, g, d, i, first, acc, imps) ==
  IF i > Len(g.items) THEN <<acc, first, imps>>
  ELSE LET c == g.items[i]
           imps1 == IF c.k = "tok" /\ c.t = "pkg" THEN Reg(cfg, imps, c.v)[1] ELSE imps
       IN IF IsNull(cfg, imps1, c)
          THEN GI(cfg, g, d, i + 1, first,
                  \* a skipped package token (dot-import / local path) leaves a zero-width marker
                  IF c.k = "tok" /\ c.t = "pkg" THEN Append(acc, [c |-> "dk", s |-> "", p |-> c.v]) ELSE acc, imps1)
          ELSE LET r == R(cfg, c, NilC, imps1)
               IN GI(cfg, g, d, i + 1, FALSE,
                     acc \o (IF ~first THEN d.sep ELSE <<>>) \o (IF d.multi THEN <<NL>> ELSE <<>>) \o r[1], r[2])

\* Statement.render: items joined by one blank; each item sees its predecessor in the statement
SI(cfg, s, i, first, acc, imps) ==
  IF i > Len(s.items) THEN <<acc, imps>>
  ELSE LET c == s.items[i] IN
       IF IsNull(cfg, imps, c) THEN SI(cfg, s, i + 1, first, acc, imps)
       ELSE LET r == R(cfg, c, IF i > 1 THEN s.items[i - 1] ELSE NilC, imps)
            IN SI(cfg, s, i + 1, FALSE, acc \o (IF first THEN <<>> ELSE <<SP>>) \o r[1], r[2])

\* Dict.render pass 1: keys of live pairs are rendered (into a scratch buffer) in map order: side effect = register
DictKeys(cfg, d, i, texts, imps, seen) ==
  IF i > Len(d.items) THEN <<texts, imps>>
  ELSE LET key == d.items[i].items[1]  v == d.items[i].items[2] IN
       IF IsNull(cfg, imps, key) \/ IsNull(cfg, imps, v) THEN DictKeys(cfg, d, i + 1, Append(texts, ""), imps, seen)
       ELSE LET r == R(cfg, key, NilC, imps) IN DictKeys(cfg, d, i + 1, Append(texts, Flat(r[1])), r[2], seen)
\* pass 2: live pairs in sorted key order
DictOut(cfg, d, ord, j, acc, imps, texts) ==
  IF j > Len(ord) THEN <<acc, imps>>
  ELSE LET \* Legacy DictCollapse: lookup[text] keeps the LAST pair visited with that text
           idx == IF "DictCollapse" \in Legacy
                  THEN LET same == {x \in DOMAIN d.items : texts[x] = texts[ord[j]] /\ texts[x] # ""}
                       IN CHOOSE x \in same : \A y \in same : y <= x
                  ELSE ord[j]
           p  == d.items[idx]
           rk == R(cfg, p.items[1], NilC, imps)
           rv == R(cfg, p.items[2], NilC, rk[2])
           multi == Len(ord) > 1
       IN DictOut(cfg, d, ord, j + 1,
                  acc \o (IF j = 1 /\ multi THEN <<NL>> ELSE <<>>) \o rk[1] \o <<T(":")>> \o rv[1]
                      \o (IF multi THEN <<T(","), NL>> ELSE <<>>), rv[2], texts)

CmtPieces(c) ==
  CASE c.st = "raw"     -> <<[c |-> "rc", s |-> c.v]>>
    [] c.st = "line"    -> <<[c |-> "lc", s |-> "// " \o c.v]>>
    [] c.st = "block"   -> <<[c |-> "bc", s |-> "/*\n" \o c.v \o "\n*/"]>>     \* text has a newline, not at its end
    [] c.st = "blocknl" -> <<[c |-> "bc", s |-> "/*\n" \o c.v \o "*/"]>>       \* text ends with a newline

\* render: returns <<pieces, imports>>
R(cfg, c, prev, imps) ==
  CASE c.k = "tok" ->
         IF c.t = "pkg" THEN LET r == Reg(cfg, imps, c.v) IN <<<<[c |-> "pk", s |-> r[2], p |-> c.v]>>, r[1]>>
         \* tokens.go: keyword, operator, delimiter and layout tokens share one branch, which appends the colon to "default"
         ELSE IF c.t \in {"kw", "op"} /\ c.v = "default" THEN <<<<T("default"), T(":")>>, imps>>
         ELSE IF c.t = "layout" THEN <<<<NL>>, imps>>
         ELSE IF c.v = "" THEN <<<<>>, imps>>
         ELSE <<<<T(c.v)>>, imps>>
    [] c.k = "cmt"  -> <<CmtPieces(c), imps>>
    [] c.k = "tag"  -> <<<<T(c.v)>>, imps>>
    [] c.k = "stmt" -> SI(cfg, c, 1, TRUE, <<>>, imps)
    [] c.k = "dict" ->
         LET p1   == DictKeys(cfg, c, 1, <<>>, imps, {})
             live == SelectSeq(c.order, LAMBDA i : p1[1][i] # "")
         IN DictOut(cfg, c, live, 1, <<>>, p1[2], p1[1])
    [] c.k = "grp"  ->
         IF c.name = "types" /\ AllNull(cfg, imps, c.items) THEN <<<<>>, imps>>
         ELSE LET d  == GDef(c)
                  cb == c.name = "block" /\ prev.k # "nil"
                        /\ ((prev.k = "grp" /\ prev.name = "case") \/ (prev.k = "tok" /\ prev.t = "kw" /\ prev.v = "default"))
                  open  == IF cb THEN <<>> ELSE d.open
                  close == IF cb THEN <<>> ELSE d.close
                  r == GI(cfg, c, d, 1, TRUE, <<>>, imps)
              IN << open \o r[1]
                    \o (IF ~r[2] /\ d.multi /\ close # <<>> THEN (IF d.sep = <<T(",")>> THEN <<T(","), NL>> ELSE <<NL>>) ELSE <<>>)
                    \o close, r[3] >>

(* ---------------------------- the import block -------------------------- *)
\* jen.go renderImports. sorted = the paths of imps in byte order (strings cannot be ordered by TLC:
\* the order is a parameter: a constant of the configuration, or supplied by the recorder)
Quoted(cfg, p) == cfg.paths[p].quoted
ImpSpec(cfg, imps, p) == (IF imps[p].alias /\ p # "C" THEN <<T(imps[p].name), SP>> ELSE <<>>) \o <<T(Quoted(cfg, p))>>
RECURSIVE ImpLines(_, _, _, _)
ImpLines(cfg, imps, ps, acc) ==
  IF ps = <<>> THEN acc ELSE ImpLines(cfg, imps, Tail(ps), acc \o ImpSpec(cfg, imps, Head(ps)) \o <<NL>>)
RECURSIVE CmtLines(_)
CmtLines(cs) == IF cs = <<>> THEN <<>> ELSE CmtPieces(Head(cs)) \o <<NL>> \o CmtLines(Tail(cs))
ImportBlock(cfg, imps, sorted, preamble) ==
  LET hasC == Find(imps, "C").name # "" \/ Len(preamble) > 0
      sep  == hasC /\ Len(preamble) > 0
      ps   == SelectSeq(sorted, LAMBDA p : p \in DOMAIN imps /\ ~(p = "C" /\ sep))
      main == IF Len(ps) = 0 THEN <<>>
              ELSE IF Len(ps) = 1 THEN <<T("import"), SP>> \o ImpSpec(cfg, imps, ps[1]) \o <<NL, NL>>
              ELSE <<T("import"), SP, T("("), NL>> \o ImpLines(cfg, imps, ps, <<>>) \o <<T(")"), NL, NL>>
  IN main \o (IF sep THEN CmtLines(preamble) \o <<T("import"), SP, T("\"C\""), NL, NL>> ELSE <<>>)

(* ------------------------------ whole file ------------------------------ *)
\* fc : [name, canonicalq, headers, comments, preamble : Seq(cmt)]; body : Seq(Code)
\* File.Render renders the body FIRST (registering imports), then assembles.  Returns <<pieces, imports>>
FileBody(cfg, body, imps) == GI(cfg, [items |-> body], G(<<>>, <<>>, <<>>, TRUE, -1), 1, TRUE, <<>>, imps)
RenderFile(cfg, fc, body, imps, sorted) ==
  LET b == FileBody(cfg, body, imps)
  IN << (IF Len(fc.headers) > 0 THEN CmtLines(fc.headers) \o <<NL>> ELSE <<>>)
        \o CmtLines(fc.comments)
        \o <<T("package"), SP, T(fc.name)>>
        \o (IF fc.canonicalq # "" THEN <<SP, [c |-> "lc", s |-> "// import " \o fc.canonicalq]>> ELSE <<>>)
        \o <<NL, NL>>
        \o ImportBlock(cfg, b[3], sorted, fc.preamble)
        \o b[1], b[3] >>
\* Statement / Group RenderWithFile: the fragment alone, registering into the File
RenderFragment(cfg, c, imps) == R(cfg, c, NilC, imps)

(* ---------------- projections used by properties and monitors ----------- *)
\* package references actually emitted by a render: set of <<path, qualifier>>
Refs(ps) == {<<ps[i].p, ps[i].s>> : i \in {j \in DOMAIN ps : ps[j].c = "pk"}}
\* paths referenced bare (package token skipped)
Bare(ps) == {ps[i].p : i \in {j \in DOMAIN ps : ps[j].c = "dk"}}
Find2(f, p) == IF p \in DOMAIN f THEN f[p] ELSE {}
\* the import specs a table yields (what renderImports prints): name = "" when no alias is written
SpecOf(imps, p) == [path |-> p, name |-> IF imps[p].alias /\ p # "C" THEN imps[p].name ELSE ""]
Specs(imps) == {SpecOf(imps, p) : p \in DOMAIN imps}
=============================================================================
