SPECIFICATION Spec
CONSTANTS
  MaxCells = 3
  MaxOps = 5
  MaxAppend = 2
  HeaderCopy = FALSE
VIEW view
INVARIANTS C20_OwnKept
PROPERTIES C20_Isolation C20_CloneEqual
CONSTRAINT Emit
CHECK_DEADLOCK FALSE
