---------------------------- MODULE Trace_System ----------------------------
(***************************************************************************)
(* Trace validation for the system tier.  The recorded calls DRIVE the     *)
(* actions of JenSystem (one trace event = one public call = one action);  *)
(* after every observation                                                 *)
(*  (B) the model's prediction (raw bytes for a NoFormat File, the token   *)
(*      sequence otherwise, and the File's import table) is compared with  *)
(*      the observation: a difference is DRIFT, and the model's table is   *)
(*      resynchronised to the observed one;                                *)
(*  (C) monitors that read only the observation and the abstract history:  *)
(*      C08 (same object, nothing built or hinted in between => same bytes;*)
(*      a path keeps its qualifier; the import block declares it),         *)
(*      C09 (the observation equals the one made on an isolated twin in    *)
(*      which no other File exists), C10 (a failed render writes nothing), *)
(*      C02 (nil => parses; never a panic), C03 / C05 / C06 on the         *)
(*      projected import block and references, C15 (file level) and C19    *)
(*      (preamble placement) after front-matter calls made at any point of *)
(*      the behaviour.  (C04 speaks about a                                *)
(*      freshly built File and is not monitored here: a fragment render    *)
(*      that fails to format still registers its paths.)                   *)
(***************************************************************************)
EXTENDS JenSystem, JenGuess

CONSTANTS TraceFile, VFile
Trace == ndJsonDeserialize(TraceFile)
\* line 1 of the trace is the path universe: what the tree under test takes for the std name of each path,
\* the path's code points (the guess is computed by JenGuess), the symbol that identifies references to it
TPathInfo == [p \in DOMAIN Trace[1].paths |-> [Trace[1].paths[p] EXCEPT !.guess = Guess(Trace[1].paths[p].lower)]]
TPaths == DOMAIN Trace[1].paths
TSorted == Trace[1].sorted

VARIABLES l, tid,
          clean,    \* file -> last output hash while nothing was built or hinted since ("" = dirty)
          lastfrag, \* <<cell, file>> -> same for fragment renders
          lastplain \* cell -> same for Render / GoString (reset by every build call)
tvars == <<vars, l, tid, clean, lastfrag, lastplain>>
E == Trace[l]
SeqSet(s) == {s[i] : i \in DOMAIN s}
Report(prop, key) == CSVWrite("%1$s", <<ToJson([prop |-> prop, trace |-> tid, line |-> l, key |-> key])>>, VFile)
TableFn(t) == [p \in {t[i].path : i \in DOMAIN t} |-> LET i == CHOOSE i \in DOMAIN t : t[i].path = p IN Def(t[i].name, t[i].alias)]

TInit == /\ l = 2 /\ tid = 0 /\ clean = <<>> /\ lastfrag = <<>> /\ lastplain = <<>>
         /\ cells = <<>> /\ files = <<>> /\ ntok = 0 /\ obs = NoObs /\ bound = <<>> /\ nops = 0 /\ hist = <<>>

Consume(e) == l <= Len(Trace) /\ E.ev = e /\ l' = l + 1

\* a new behaviour
FilesEv ==
  /\ Consume("Files") /\ tid' = E.trace
  /\ cells' = <<>> /\ ntok' = 0 /\ obs' = NoObs /\ nops' = 0 /\ hist' = <<>>
  /\ files' = [i \in DOMAIN E.files |-> [local |-> E.files[i].local, prefix |-> E.files[i].prefix, noformat |-> E.files[i].noformat,
                                           hints |-> <<>>, imps |-> <<>>, body |-> <<>>, anons |-> {}, claims |-> <<>>, fm |-> NoFM]]
  /\ bound' = [i \in DOMAIN E.files |-> <<>>]
  /\ clean' = [i \in DOMAIN E.files |-> ""] /\ lastfrag' = <<>> /\ lastplain' = <<>>

\* build and configuration calls: the specification's own action with the recorded arguments
Dirty(fs) == /\ clean' = [i \in DOMAIN clean |-> IF i \in fs THEN "" ELSE clean[i]]
             /\ lastfrag' = [k \in {x \in DOMAIN lastfrag : x[2] \notin fs} |-> lastfrag[k]]
AllFiles == DOMAIN files
BuildEv ==
  /\ l <= Len(Trace) /\ l' = l + 1 /\ UNCHANGED tid
  /\ \/ E.ev = "NewVar" /\ NewVar /\ Fresh = E.n
     \/ E.ev = "NewId" /\ NewId /\ Fresh = E.n
     \/ E.ev = "NewQual" /\ NewQual(E.p)
     \/ E.ev = "NewNull" /\ NewNull
     \/ E.ev = "AppId" /\ AppId(E.c) /\ Fresh = E.n
     \/ E.ev = "AppDot" /\ AppDot(E.c) /\ Fresh = E.n
     \/ E.ev = "AppQual" /\ AppQual(E.c, E.p)
     \/ E.ev = "AppGroup" /\ AppGroup(E.c, E.n, E.refs, E.d)
     \/ E.ev = "AddRef" /\ AddRef(E.c, E.d)
     \/ E.ev = "Clone" /\ CloneCell(E.c)
  \* what was observed stays valid unless the call changed a statement that the observed value reaches: a new statement is
  \* reachable from nothing yet, an append to statement c concerns exactly the values that reach c (C08: "any number of
  \* times yields identical bytes" - whatever was built elsewhere in between)
  /\ IF E.ev \in {"NewVar", "NewId", "NewQual", "NewNull", "Clone"}
     THEN UNCHANGED <<clean, lastfrag, lastplain>>
     ELSE /\ clean' = [i \in DOMAIN clean |-> IF E.c \in UNION {Reach(cells, b) : b \in BodyCells(i)} THEN "" ELSE clean[i]]
          /\ lastfrag' = [k \in {x \in DOMAIN lastfrag : E.c \notin Reach(cells, x[1])} |-> lastfrag[k]]
          /\ lastplain' = [c \in {x \in DOMAIN lastplain : E.c \notin Reach(cells, x)} |-> lastplain[c]]
FileEv ==
  /\ l <= Len(Trace) /\ l' = l + 1 /\ UNCHANGED tid
  /\ \/ E.ev = "FileAdd" /\ FileAdd(E.f, E.c)
     \/ E.ev = "FileAddFile" /\ FileAddFile(E.f, E.d)
     \/ E.ev = "ImportName" /\ DoImportName(E.f, E.p, E.n)
     \/ E.ev = "ImportAlias" /\ ImportAlias(E.f, E.p, E.n)
     \/ E.ev = "Anon" /\ DoAnon(E.f, E.p)
     \/ E.ev = "Header" /\ FileHeader(E.f, CmtS(E.n, E.p))
     \/ E.ev = "PkgComment" /\ FilePkgComment(E.f, CmtS(E.n, E.p))
     \/ E.ev = "Preamble" /\ FilePreamble(E.f, CmtS(E.n, E.p))
     \/ E.ev = "Canonical" /\ FileCanonical(E.f, E.p)
  /\ Dirty(IF \E x \in DOMAIN files : \E i \in DOMAIN files[x].body : files[x].body[i] < 0 THEN AllFiles ELSE {E.f})
                           \* a call on one File says nothing about the others (C09) - unless Files have been added to Files
  /\ UNCHANGED lastplain    \* ... nor about Render / GoString, which use a File of their own

(* ------------------------------ monitors (C) ----------------------------- *)
\* C20 / C08 at the level of tokens: every identifier appended directly to a statement that the observed value reaches
\* appears in the output, in the order of appending (nothing lost, nothing reordered) - whatever was cloned, added or
\* appended to other statements in between.  (Reads the recorded calls only, not the model's rendering.  The edge from a
\* clone to its original is not followed: a clone that is a true copy need not show what is appended to the original later.)
OwnIds(c) == LET s == SelectSeq(cells[c].items, LAMBDA it : it.t = "id" /\ it.v # "_") IN [i \in DOMAIN s |-> s[i].v]
RECURSIVE SubAt(_, _, _, _)
SubAt(s, i, t, j) == IF i > Len(s) THEN TRUE ELSE IF j > Len(t) THEN FALSE
                     ELSE IF s[i] = t[j] THEN SubAt(s, i + 1, t, j + 1) ELSE SubAt(s, i, t, j + 1)
TokensKept(roots, toks) ==
  \A c \in UNION {ReachNC(cells, r) : r \in roots} :
     ~SubAt(OwnIds(c), 1, toks, 1) => Report("C20", "tokens of a statement lost or reordered in the output (system tier)")

Quals(refs, bare) == {<<r.path, r.qual>> : r \in refs} \cup {<<p, "">> : p \in bare}
MonCommon(f, refs, bare) ==
  /\ (E.status = "panic") => Report("C02", "panic in the system tier")
  /\ (E.status = "nil" /\ ~E.parses) => Report("C02", "nil but the output does not parse (system tier)")
  /\ (E.status # "nil" /\ E.nbytes # 0) => Report("C10", "a failed render wrote to the writer (system tier)")
  /\ (~E.twin) => Report("C09", "the output of a File depends on calls made on other Files")
  /\ \A q \in Quals(refs, bare) : (q[1] \in DOMAIN bound[f] /\ bound[f][q[1]] # q[2]) => Report("C08", "system: " \o q[1])
  /\ \A r \in refs : (files[f].local # "" /\ r.path = files[f].local) => Report("C06", "system: " \o r.path)
  /\ \A r1, r2 \in refs : (r1.path = r2.path /\ r1.qual # r2.qual) => Report("C03", "system: " \o r1.path)
MonFile(f, specs, refs, bare) ==
  LET Real(p) == Find2(files[f].claims, p) \cup (IF p \in DOMAIN TPathInfo /\ TPathInfo[p].real # "" THEN {TPathInfo[p].real} ELSE {})
      Prov(s, q) == IF s.name # "" THEN s.name = q ELSE q \in Real(s.path)
  IN
  /\ \A r \in refs : (~ \E s \in specs : s.path = r.path /\ s.name \notin {"_", "."} /\ Prov(s, r.qual)) => Report("C03", "system: " \o r.path)
  /\ \A r \in refs : \A s \in specs : (s.path # r.path /\ s.name \notin {"_", "."} /\ Prov(s, r.qual)) => Report("C03", "system: qualifier " \o r.qual \o " is also bound to " \o s.path)
  /\ \A s1, s2 \in specs : (s1.path # s2.path /\ s1.name \notin {"", "_", "."} /\ (s1.name = s2.name \/ (s2.name = "" /\ s1.name \in Real(s2.path))))
                              => Report("C05", "system: " \o s1.name)
  /\ \A s \in specs : ~s.legal => Report("C05", "system: " \o s.name)
  /\ \A s \in specs : (files[f].local # "" /\ s.path = files[f].local) => Report("C06", "system: " \o s.path)
  /\ \A p \in bare : (p # files[f].local /\ ~ \E s \in specs : s.path = p /\ s.name = ".") => Report("C06", "system: " \o p)
  \* C19: a preamble, whenever it was given, puts import "C" in a declaration of its own with the preamble as its doc comment
  /\ \A s \in specs : (s.path = "C" /\ s.name # "") => Report("C19", "system: " \o s.name)
  /\ (Len(files[f].fm.preamble) > 0 /\ ~ \E s \in specs : s.path = "C") => Report("C19", "system: no import C")
  /\ \A s, o \in specs : (s.path = "C" /\ Len(files[f].fm.preamble) > 0 /\ o.path # "C" /\ o.decl = s.decl) => Report("C19", "system: not separate")
  /\ \A s \in specs : (E.docsok /\ s.path = "C" /\ Len(files[f].fm.preamble) > 0 /\ s.doc # E.predoc) => Report("C19", "system: preamble")
  \* C15 at file level, whenever the calls were made (facts measured on the output by go/parser)
  /\ (E.c15f.on /\ ~E.c15f.docok) => Report("C15", "system: package comments are not exactly the package doc")
  /\ (E.c15f.on /\ ~E.c15f.headok) => Report("C15", "system: header comment lost or part of the package doc")
  /\ (E.c15f.on /\ ~E.c15f.canonok) => Report("C15", "system: canonical import path annotation")
  /\ \A p \in DOMAIN bound[f] : (bound[f][p] # "" /\ ~ \E s \in specs : s.path = p /\ s.name \notin {"_", "."} /\ Prov(s, bound[f][p]))
                                  => Report("C08", "system: undeclared " \o p)

Resync(f, t) == files' = [files EXCEPT ![f].imps = t]

RenderEv ==
  /\ Consume("Render") /\ UNCHANGED tid
  /\ LET f == E.f
         r == RenderFile(CfgOf(f), FCOf(f), BodyTrees(f), files[f].imps, Sorted)
         refs == SeqSet(E.prefs)  bare == SeqSet(E.bare)  specs == SeqSet(E.specs)
         obsT == TableFn(E.table)
     IN /\ (E.israw /\ Flat(r[1]) # E.raw) => Report("DRIFT", "raw")
        /\ (E.status = "nil" /\ ~E.israw /\ Toks(r[1]) # E.toks) => Report("DRIFT", "tokens")
        /\ (r[2] # obsT) => Report("DRIFT", "table")
        /\ MonCommon(f, refs, bare) = TRUE        \* (equations: evaluated as expressions, not as conjuncts of the action)
        /\ ((E.status = "nil") => MonFile(f, specs, refs, bare)) = TRUE
        /\ (clean[f] # "" /\ clean[f] # E.out) => Report("C08", "system: repeat")
        /\ ((E.status = "nil") => TokensKept(BodyCells(f), E.toks)) = TRUE
        /\ Resync(f, obsT)
        /\ bound' = [bound EXCEPT ![f] = Bind(@, {<<x.path, x.qual>> : x \in refs}, bare)]
        /\ clean' = [clean EXCEPT ![f] = E.out]
        /\ lastfrag' = [k \in {x \in DOMAIN lastfrag : x[2] # f} |-> lastfrag[k]]     \* the File's table may have grown
  /\ nops' = nops + 1 /\ UNCHANGED <<cells, ntok, obs, hist, lastplain>>

FragEv ==
  /\ Consume("Frag") /\ UNCHANGED tid
  /\ LET f == E.f  c == E.c
         r == RenderFragment(CfgOf(f), Tree(cells, c), files[f].imps)
         refs == SeqSet(E.prefs)  bare == SeqSet(E.bare)
         obsT == TableFn(E.table)
         k == <<c, f>>
     IN /\ (E.status = "nil" /\ Toks(r[1]) # E.toks) => Report("DRIFT", "fragment tokens")
        /\ (r[2] # obsT) => Report("DRIFT", "table")
        /\ MonCommon(f, refs, bare) = TRUE
        /\ (k \in DOMAIN lastfrag /\ lastfrag[k] # E.out) => Report("C08", "system: repeat of a fragment")
        /\ ((E.status = "nil") => TokensKept({c}, E.toks)) = TRUE
        /\ Resync(f, obsT)
        /\ bound' = [bound EXCEPT ![f] = Bind(@, {<<x.path, x.qual>> : x \in refs}, bare)]
        \* the fragment may have registered paths: the next File render may differ, other fragments of this File too
        /\ clean' = [clean EXCEPT ![f] = IF r[2] = files[f].imps /\ obsT = files[f].imps THEN @ ELSE ""]
        /\ lastfrag' = [x \in ({y \in DOMAIN lastfrag : y[2] # f \/ (r[2] = files[f].imps /\ obsT = files[f].imps)} \cup {k}) |->
                          IF x = k THEN E.out ELSE lastfrag[x]]
  /\ nops' = nops + 1 /\ UNCHANGED <<cells, ntok, obs, hist, lastplain>>

\* s.Render(w): the implicit File is fresh; the twin is s.RenderWithFile(w, NewFile("")) (C14: the entry points agree)
PlainEv ==
  /\ Consume("Plain") /\ UNCHANGED tid
  /\ LET r == RenderFragment(EmptyCfg, Tree(cells, E.c), <<>>)
     IN /\ (E.status = "nil" /\ Toks(r[1]) # E.toks) => Report("DRIFT", "plain tokens")
        /\ (E.status = "panic") => Report("C02", "panic in the system tier")
        /\ (E.status = "nil" /\ ~E.parses) => Report("C02", "nil but the output does not parse (system tier)")
        /\ (E.status # "nil" /\ E.nbytes # 0) => Report("C10", "a failed render wrote to the writer (system tier)")
        /\ (~E.twin) => Report("C14", "Render and RenderWithFile with a fresh File disagree (system tier)")
        /\ (~E.twin2) => Report("C14", "GoString and Render disagree (system tier)")
        \* the same statement, nothing built in between (whatever was rendered, successfully or not, meanwhile): same bytes
        /\ (E.c \in DOMAIN lastplain /\ lastplain[E.c] # E.out) => (Report("C07", "the same statement renders different bytes later in the process (system tier)")
                                                                    /\ Report("C08", "system: repeat of Render / GoString"))
        /\ lastplain' = Put(lastplain, E.c, E.out)
        /\ ((E.status = "nil") => TokensKept({E.c}, E.toks)) = TRUE
  /\ nops' = nops + 1 /\ UNCHANGED <<cells, files, ntok, obs, bound, hist, clean, lastfrag>>

\* a behaviour during which the library killed the process (stack overflow, concurrent map access: nothing Go can recover
\* from).  The harness executes behaviours in child processes and records such a behaviour as one event.
CrashEv ==
  /\ Consume("Crash") /\ tid' = E.trace
  /\ Report("CRASH", "the library killed the process: " \o E.msg)
  /\ UNCHANGED <<vars, clean, lastfrag, lastplain>>

TNext == CrashEv \/ FilesEv \/ BuildEv \/ FileEv \/ RenderEv \/ FragEv \/ PlainEv
TSpec == TInit /\ [][TNext]_tvars
\* line 1 (the universe) is read by TInit
Accepted == TLCGet("stats").diameter = Len(Trace)
=============================================================================
