------------------------------ MODULE JenSys ------------------------------
(***************************************************************************)
(* One File as a state machine: configuration calls, additions to the     *)
(* body, File.Render and fragment renders (RenderWithFile) as ordinary     *)
(* steps, so that histories like  render, hint, add, fragment render,      *)
(* render  are behaviours.  The properties of the import family            *)
(* (C03 C04 C05 C06 C08 C18 C19) are state invariants / action properties  *)
(* over the last observation.                                              *)
(***************************************************************************)
EXTENDS Jen, Json, CSV

CONSTANTS
  Paths,       \* path pool (strings)
  PathInfo,    \* path -> [std, guess, quoted]
  Sorted,      \* Paths in byte order (sequence)
  Locals,      \* possible local package paths ("" = none)
  PrefixPool,    \* possible PackagePrefix values
  HintNames,   \* names used with ImportName (all) and ImportAlias (all + ".")
  BodyPool,    \* Code values that can be added to the File
  FragPool,    \* Code values that can be rendered with RenderWithFile
  Preambles,   \* possible cgo preambles (sequences of comments)
  FileMeta,    \* possible [headers, comments, canonical] settings (HeaderComment, PackageComment, CanonicalPath)
  MaxOps, MaxBody, MaxRenders

VARIABLES
  local, prefix, hints, imps, body, preamble, fmeta,   \* the File
  obs,        \* last observation
  bound,      \* history: path -> qualifier first observed in any output
  claims,     \* history: path -> set of names supplied with ImportName
  anons,      \* history: paths passed to Anon
  nops, nrend,
  hist        \* the call history (exported to the replay harness; not part of the VIEW)

vars == <<local, prefix, hints, imps, body, preamble, fmeta, obs, bound, claims, anons, nops, nrend, hist>>
view == <<local, prefix, hints, imps, body, preamble, fmeta, obs, bound, claims, anons, nops, nrend>>

Cfg == [local |-> local, prefix |-> prefix, hints |-> hints, paths |-> PathInfo]
NoObs == [kind |-> "none", pieces |-> <<>>, anons |-> {}, claims |-> <<>>, refs |-> {}, bare |-> {}, specs |-> {}, imps |-> <<>>, text |-> "", sepC |-> FALSE]

Init ==
  /\ local \in Locals /\ prefix \in PrefixPool /\ preamble \in Preambles /\ fmeta \in FileMeta
  /\ hints = <<>> /\ imps = <<>> /\ body = <<>>
  /\ obs = NoObs /\ bound = <<>> /\ claims = <<>> /\ anons = {}
  /\ nops = 0 /\ nrend = 0
  /\ hist = <<[a |-> "New", local |-> local, prefix |-> prefix,
               preamble |-> [i \in DOMAIN preamble |-> preamble[i].v],
               headers |-> [i \in DOMAIN fmeta.headers |-> fmeta.headers[i].v],
               comments |-> [i \in DOMAIN fmeta.comments |-> fmeta.comments[i].v],
               canonical |-> fmeta.canonical]>>

Step == nops < MaxOps /\ nops' = nops + 1
H(r) == hist' = Append(hist, r)

ImportName(p, n) ==
  /\ (PathInfo[p].std # "" /\ n # "") => n = PathInfo[p].std     \* domain: no false claims about the standard library
  /\ n = "" \/ Find2(claims, p) \subseteq {n}      \* domain: a package has one name (the empty name claims nothing: it withdraws a hint)
  /\ Step /\ H([a |-> "ImportName", p |-> p, n |-> n])
  /\ hints' = Put(hints, p, Def(n, FALSE))
  /\ claims' = IF p = "C" \/ n = "" THEN claims ELSE Put(claims, p, Find2(claims, p) \cup {n})   \* nothing renames "C"
  /\ UNCHANGED <<local, prefix, imps, body, preamble, fmeta, obs, bound, anons, nrend>>
ImportAlias(p, n) ==
  /\ Step /\ H([a |-> "ImportAlias", p |-> p, n |-> n])
  /\ hints' = Put(hints, p, Def(n, TRUE))
  /\ UNCHANGED <<local, prefix, imps, body, preamble, fmeta, obs, bound, claims, anons, nrend>>
\* C08 excludes Anon on an already referenced path
Anon(p) ==
  /\ Step /\ H([a |-> "Anon", p |-> p, n |-> ""])
  /\ Find(imps, p).name \in {"", "_"}
  /\ p # local                      \* importing one's own package is not a use case
  /\ imps' = Put(imps, p, Def("_", TRUE))
  /\ anons' = anons \cup {p}
  /\ UNCHANGED <<local, prefix, hints, body, preamble, fmeta, obs, bound, claims, nrend>>
AddCode(c) ==
  /\ Step /\ Len(body) < MaxBody /\ H([a |-> "Add", p |-> "", n |-> "", tree |-> c])
  /\ body' = Append(body, c)
  /\ UNCHANGED <<local, prefix, hints, imps, preamble, fmeta, obs, bound, claims, anons, nrend>>

Bind(b, refs) == [p \in DOMAIN b \cup {r[1] : r \in refs} |->
                    IF p \in DOMAIN b THEN b[p] ELSE (CHOOSE r \in refs : r[1] = p)[2]]

RenderFileStep ==
  /\ Step /\ nrend < MaxRenders /\ nrend' = nrend + 1 /\ H([a |-> "Render", p |-> "", n |-> ""])
  /\ LET fc == [name |-> "main", canonicalq |-> IF fmeta.canonical = "" THEN "" ELSE "\"" \o fmeta.canonical \o "\"",
                headers |-> fmeta.headers, comments |-> fmeta.comments, preamble |-> preamble]
         r  == RenderFile(Cfg, fc, body, imps, Sorted)
         bodyPieces == FileBody(Cfg, body, imps)[1]
     IN /\ imps' = r[2]
        /\ obs' = [kind |-> "file", pieces |-> r[1], anons |-> anons, claims |-> claims, refs |-> Refs(bodyPieces), bare |-> Bare(bodyPieces), specs |-> Specs(r[2]) \cup (IF Len(preamble) > 0 THEN {[path |-> "C", name |-> ""]} ELSE {}), imps |-> r[2],
                   text |-> Flat(r[1]), sepC |-> Len(preamble) > 0]
        /\ bound' = Bind(bound, Refs(bodyPieces) \cup {<<p, "">> : p \in Bare(bodyPieces)})
  /\ UNCHANGED <<local, prefix, hints, body, preamble, fmeta, claims, anons>>

RenderFragStep(c) ==
  /\ Step /\ nrend < MaxRenders /\ nrend' = nrend + 1 /\ H([a |-> "Frag", p |-> "", n |-> "", tree |-> c])
  /\ LET r == RenderFragment(Cfg, c, imps)
     IN /\ imps' = r[2]
        /\ obs' = [kind |-> "frag", pieces |-> <<>>, anons |-> anons, claims |-> claims, refs |-> Refs(r[1]), bare |-> Bare(r[1]), specs |-> {}, imps |-> r[2], text |-> Flat(r[1]), sepC |-> FALSE]
        /\ bound' = Bind(bound, Refs(r[1]) \cup {<<p, "">> : p \in Bare(r[1])})
  /\ UNCHANGED <<local, prefix, hints, body, preamble, fmeta, claims, anons>>

Next ==
  \/ \E p \in Paths, n \in HintNames \ {"."} : ImportName(p, n)
  \/ \E p \in Paths, n \in HintNames : ImportAlias(p, n)
  \/ \E p \in Paths : Anon(p)
  \/ \E c \in BodyPool : AddCode(c)
  \/ RenderFileStep
  \/ \E c \in FragPool : RenderFragStep(c)

Spec == Init /\ [][Next]_vars

(* ------------------------------ properties ------------------------------ *)
\* the name an import spec provides
\* what an import without alias provides: the standard-library name and/or the name the user supplied with
\* ImportName (domain: the user does not lie about a standard-library package, see ImportName)
RealNames(p) == (IF p = "C" THEN {"C"} ELSE {}) \cup Find2(obs.claims, p)
                \cup (IF PathInfo[p].std # "" THEN {PathInfo[p].std} ELSE {})
Provides(s, q) == IF s.name # "" THEN s.name = q ELSE q \in RealNames(s.path)
\* names are built from identifier characters in this model, except a prefix glued to the dot of a dot-import
LegalName(n) == n \notin GoKeywords \cup GoUniverse \cup {pfx \o "_." : pfx \in PrefixPool}

C03_Resolve ==
  obs.kind = "file" =>
    /\ \A r \in obs.refs : r[2] # "" =>
         \E s \in obs.specs : s.path = r[1] /\ s.name \notin {"_", "."} /\ Provides(s, r[2])
    /\ \A r1, r2 \in obs.refs : r1[1] = r2[1] => r1[2] = r2[2]
    /\ \A r \in obs.refs : \A s \in obs.specs : (s.path # r[1] /\ s.name \notin {"_", "."}) => ~Provides(s, r[2])   \* bound to exactly that path

\* which paths the body references with an emitted package token / through a dot import
DotPaths == {s.path : s \in {x \in obs.specs : x.name = "."}}
C04_Exact ==
  obs.kind = "file" =>
    LET used == {r[1] : r \in {x \in obs.refs : x[2] # ""}} IN
    /\ \A s \in obs.specs : s.path \in used \/ s.path \in DOMAIN bound \/ s.name = "_" \/ (s.name = "." /\ s.path \in obs.bare) \/ (s.path = "C" /\ (s.path \in obs.anons \/ obs.sepC))
    /\ \A p \in used : \E s \in obs.specs : s.path = p
    /\ \A p \in obs.anons : \E s \in obs.specs : s.path = p
    /\ \A s \in obs.specs : s.name = "_" => s.path \in obs.anons
    /\ \A p \in obs.bare : p # local => \E s \in obs.specs : s.path = p /\ s.name = "."
    /\ \A s1, s2 \in obs.specs : s1.path = s2.path => s1 = s2

EffName(s) == IF s.name # "" THEN {s.name} ELSE RealNames(s.path)
C05_UniqueLegal ==
  obs.kind = "file" =>
    /\ \A s1, s2 \in obs.specs : s1.path # s2.path /\ s1.name # "" /\ s1.name = s2.name => s1.name \in {"_", "."}
    /\ \A s1, s2 \in obs.specs : s1.path # s2.path /\ s1.name \notin {"_", "."} /\ s2.name = "" /\ s1.name # ""
                                   => s1.name \notin EffName(s2)
    /\ \A s \in obs.specs : s.name \notin {"", "_", "."} => LegalName(s.name)

C06_LocalDot ==
  obs.kind = "file" =>
    /\ \A r \in obs.refs : r[1] # local                  \* a local reference never emits a package token
    /\ \A s \in obs.specs : s.path # local \/ local = ""
    /\ \A s \in obs.specs : s.name = "." => \A r \in obs.refs : r[1] # s.path     \* dot-imported => bare
    /\ \A p \in obs.bare : p = local \/ \E s \in obs.specs : s.path = p /\ s.name = "."

C19_Cgo ==
  obs.kind = "file" =>
    /\ \A s \in obs.specs : s.path = "C" => s.name = ""
    /\ \A r \in obs.refs : r[1] = "C" => r[2] = "C"
    /\ "C" \notin obs.bare
    /\ (Len(preamble) > 0 => \E s \in obs.specs : s.path = "C")

\* C15 (file level): package comments sit directly on the package clause, header comments are separated from them by
\* a blank line, the canonical import path is a line comment on the package clause
PkgIdx(ps) == CHOOSE i \in DOMAIN ps : ps[i] = T("package") /\ \A j \in 1..(i - 1) : ps[j] # T("package")
C15_FileLevel ==
  obs.kind = "file" =>
    LET ps == obs.pieces  ip == PkgIdx(ps)
        nc == Len(fmeta.comments)  nh == Len(fmeta.headers)
    IN /\ \A k \in 1..nc : ps[ip - 2 * (nc - k) - 2].c \in {"lc", "bc", "rc"} /\ ps[ip - 2 * (nc - k) - 1] = NL   \* comment, newline, ..., package
       /\ (nh > 0) => (ps[ip - 2 * nc - 1] = NL /\ ps[ip - 2 * nc - 2] = NL /\ ps[ip - 2 * nc - 3].c \in {"lc", "bc", "rc"})   \* blank line after the headers
       /\ (nh = 0) => ip = 2 * nc + 1
       /\ (fmeta.canonical # "") => (ps[ip + 3] = SP /\ ps[ip + 4].c = "lc" /\ ps[ip + 5] = NL)
       /\ (fmeta.canonical = "") => ps[ip + 3] = NL

\* C08: a path keeps the qualifier it was first seen with, and the File's import block declares it
C08_StableNames ==
  /\ \A r \in obs.refs : r[1] \in DOMAIN bound => bound[r[1]] = r[2]
  /\ \A p \in obs.bare : p \in DOMAIN bound => bound[p] = ""
  /\ obs.kind = "file" => \A p \in DOMAIN bound : bound[p] # "" =>
        \E s \in obs.specs : s.path = p /\ s.name \notin {"_", "."} /\ Provides(s, bound[p])
C08_BoundNeverChanges == [][\A p \in DOMAIN bound : p \in DOMAIN bound' /\ bound'[p] = bound[p]]_vars
=============================================================================
