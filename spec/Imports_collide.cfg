SPECIFICATION Spec
CONSTANTS
  Legacy = {}
  Paths = {"x/d", "y/d", "z/d1", "fmt", "x/fmt"}
  PathInfo <- MCPathInfo
  Sorted <- MCSorted
  Locals = {""}
  PrefixPool = {"", "pkg"}
  HintNames = {"d", "d1", "fmt", "."}
  BodyPool <- BodyRefs
  FragPool <- NoFrags
  FileMeta <- Meta0
  Preambles <- Pre0
  MaxOps = 4
  MaxBody = 3
  MaxRenders = 1
VIEW view
INVARIANTS C03_Resolve C04_Exact C05_UniqueLegal C06_LocalDot C19_Cgo C08_StableNames
PROPERTY C08_BoundNeverChanges
CONSTRAINT Emit
CHECK_DEADLOCK FALSE
