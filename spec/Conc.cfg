SPECIFICATION Spec
CONSTANTS
  Legacy = {}
  Jobs = {1, 2}
  NRefs = 3
  SharedCounter = FALSE
INVARIANT C09_Independent
CONSTRAINT Emit
CHECK_DEADLOCK FALSE
