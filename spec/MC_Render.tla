----------------------------- MODULE MC_Render -----------------------------
(***************************************************************************)
(* Enumerated universes of rendering cases (C13 lists, C16 / C07 dicts,    *)
(* C15 comments).  A case is a small record of Code trees; TLC checks the  *)
(* property on the model for every case (A) and exports every case for     *)
(* execution on the real library (B, C).                                   *)
(***************************************************************************)
EXTENDS Jen, Json, CSV

CONSTANTS Universe, MaxArity
VARIABLE c

NoCfg == [local |-> "", prefix |-> "", hints |-> <<>>,
          paths |-> [p \in {"x/d", "y/d"} |-> [std |-> "", guess |-> "d", quoted |-> "\"" \o p \o "\""]]]
Raw(t) == Flat(R(NoCfg, t, NilC, <<>>)[1])
Pieces(t) == R(NoCfg, t, NilC, <<>>)[1]
\* the same under a File that aliases x/d (Dict cases: the rendered key text depends on the File's settings)
\* (al = "@pkg": no alias, but PackagePrefix = "pkg" - guessed names are prefixed, so the text of a qualified key changes)
DCfg(al) == IF al = "" THEN NoCfg ELSE IF al = "@pkg" THEN [NoCfg EXCEPT !.prefix = "pkg"] ELSE [NoCfg EXCEPT !.hints = [p \in {"x/d"} |-> Def(al, TRUE)]]
RawA(al, t) == Flat(R(DCfg(al), t, NilC, <<>>)[1])
PiecesA(al, t) == R(DCfg(al), t, NilC, <<>>)[1]
Seqs(S, n) == UNION {[1..k -> S] : k \in 0..n}

(* ------------------------------ C13: lists ------------------------------ *)
ItemKinds == {"x", "nil", "null", "estmt", "elist", "eunion", "etag", "nnull", "ecustom", "empty", "deepnull"}
\* a null that sits many statements deep: Add(Add(... Null() ...))
RECURSIVE DeepNull(_)
DeepNull(k) == IF k = 0 THEN Stmt(<<NullT>>) ELSE Stmt(<<DeepNull(k - 1)>>)
NullKinds == ItemKinds \ {"x", "empty"}
Item(kind, i) ==
  CASE kind = "x"      -> Stmt(<<Id("x" \o ToString(i))>>)
    [] kind = "nil"    -> NilC
    [] kind = "null"   -> Stmt(<<NullT>>)
    [] kind = "estmt"  -> Stmt(<<>>)
    [] kind = "elist"  -> Stmt(<<Grp("list", <<>>)>>)
    [] kind = "eunion" -> Stmt(<<Grp("union", <<>>)>>)
    [] kind = "etag"   -> Stmt(<<TagC("")>>)
    [] kind = "nnull"  -> Stmt(<<Stmt(<<NullT>>), Stmt(<<>>)>>)
    [] kind = "ecustom" -> Stmt(<<Custom("", "", ";", TRUE, <<Stmt(<<NullT>>)>>)>>)   \* a multi-line Custom group without delimiters, only nulls inside
    [] kind = "empty"  -> Stmt(<<EmptyT>>)
    [] kind = "deepnull" -> DeepNull(45)
\* constructs under test: every variadic construct of the table and four Custom shapes
Customs == {"custom,", "custom;multi", "customnone", "custom,multi0"}
ListConstructs == (VariadicNames \ {"qual"}) \cup Customs
MkGroup(n, items) ==
  CASE n = "custom,"      -> Custom("<", ">", ",", FALSE, items)
    [] n = "custom;multi" -> Custom("{", "}", ";", TRUE, items)
    [] n = "customnone"   -> Custom("", "", "", FALSE, items)
    [] n = "custom,multi0" -> Custom("", "", ",", TRUE, items)      \* one item per line, no opening / closing token
    [] OTHER -> Grp(n, items)
ItemsOf(kinds) == [i \in DOMAIN kinds |-> Item(kinds[i], i)]
Kept(kinds) == LET idx == SelectSeq([i \in DOMAIN kinds |-> i], LAMBDA i : kinds[i] \notin NullKinds)
               IN [j \in DOMAIN idx |-> Item(kinds[idx[j]], idx[j])]
ListCase(n, kinds) ==
  LET g == MkGroup(n, <<>>)  d == GDef(g) IN
  [kind |-> "c13", name |-> n, kinds |-> kinds,
   variant |-> Stmt(<<MkGroup(n, ItemsOf(kinds))>>),
   base    |-> Stmt(<<MkGroup(n, Kept(kinds))>>),
   idents  |-> LET idx == SelectSeq([i \in DOMAIN kinds |-> i], LAMBDA i : kinds[i] = "x")
               IN [j \in DOMAIN idx |-> "x" \o ToString(idx[j])],
   nsep    |-> LET k == Cardinality({i \in DOMAIN kinds : kinds[i] \in {"x", "empty"}})
               IN IF d.sep = <<>> \/ k = 0 THEN 0 ELSE k - 1,
   open |-> Flat(d.open), close |-> Flat(d.close), sep |-> Flat(d.sep)]
ListCases == {ListCase(n, kinds) : n \in ListConstructs, kinds \in Seqs(ItemKinds, MaxArity)}
\* LONG lists (dozens to hundreds of items, far beyond the exhaustive arities): a few repeating patterns of kinds
LongPats == << <<"x", "empty", "x", "nil", "null", "x", "x", "estmt">>,
               <<"empty", "x", "x", "x", "x", "x", "x", "x", "x", "x", "nnull">>,
               <<"x", "x", "x", "x", "x", "x", "x", "x", "x", "x", "x", "x", "deepnull">> >>
LongKinds(len, p) == [i \in 1..len |-> LongPats[p][((i - 1) % Len(LongPats[p])) + 1]]
LongLens == {20, 70, 150}

Idents(ps) == LET sel == SelectSeq(ps, LAMBDA p : p.c = "t" /\ \E i \in 1..200 : p.s = "x" \o ToString(i)) IN [i \in DOMAIN sel |-> sel[i].s]
\* separators produced by the list itself: the pieces between open and close that equal the separator
C13_Holds(cs) ==
  LET pv == Pieces(cs.variant)  pb == Pieces(cs.base) IN
  /\ Flat(pv) = Flat(pb)                        \* adding / removing null-like items changes nothing
  /\ Idents(pv) = cs.idents                     \* exactly the remaining items, in order

(* -------------------------- C16 / C07: dicts ---------------------------- *)
\* key / value pools; texts are listed in byte order in KeyOrder so that the model can sort
KeyPool == {"a", "ab", "a1", "1", "10", "9", "f1", "f2", "qx", "qy", "null", "sk1", "sk2", "s1", "s2", "s3"}
\* (string-literal keys: the order is that of the RENDERED text, quotes included - "user id" < "user!" < "user" - and any
\*  literal sorts before every identifier; combined with plain values only)
StrKeys == {"s1", "s2", "s3"}
ValPool == {"v1", "vq", "vs", "null", "vf", "vd0", "vd2"}
\* (values that run over several lines - a function literal, a nested Dict - and a nested Dict that renders {}: combined
\*  with three kinds of keys only, to keep the universe small)
BigVals == {"vf", "vd0", "vd2"}
BigValKeys == {"a", "qx", "f1"}
\* a key that is itself a composite literal with a Dict inside (struct-literal keys): the inner Dict is rendered while the
\* outer first pass is under way
StructKey(t, f, v) == Stmt(<<Id(t), Grp("values", <<Dict(<<Pair(Stmt(<<Id(f)>>), Stmt(<<LitT(v)>>))>>, <<1>>)>>)>>)
KeyCode(k, i) ==
  CASE k = "a"    -> Stmt(<<Id("a")>>)
    [] k = "ab"   -> Stmt(<<Id("ab")>>)
    [] k = "a1"   -> Stmt(<<Id("a1")>>)
    [] k = "1"    -> Stmt(<<LitT("1")>>)
    [] k = "10"   -> Stmt(<<LitT("10")>>)
    [] k = "9"    -> Stmt(<<LitT("9")>>)
    [] k = "f1"   -> Stmt(<<Id("f"), Grp("call", <<>>)>>)
    [] k = "f2"   -> Stmt(<<Id("f"), Grp("call", <<>>)>>)      \* a second key with the same rendered text
    [] k = "qx"   -> Qual("x/d", "K")
    [] k = "qy"   -> Qual("y/d", "K")
    [] k = "null" -> Stmt(<<NullT>>)
    [] k = "s1"   -> Stmt(<<LitT("\"user\"")>>)
    [] k = "s2"   -> Stmt(<<LitT("\"user id\"")>>)
    [] k = "s3"   -> Stmt(<<LitT("\"user!\"")>>)
    [] k = "sk1"  -> StructKey("Circle", "R", "1")
    [] k = "sk2"  -> StructKey("Square", "A", "2")
\* the value identifies its key (so that a value attached to another pair's key is visible)
KeyNo(k) == CASE k = "a" -> "710" [] k = "ab" -> "711" [] k = "a1" -> "718" [] k = "10" -> "719" [] k = "9" -> "720" [] k = "1" -> "712" [] k = "f1" -> "713" [] k = "f2" -> "714"
              [] k = "qx" -> "715" [] k = "qy" -> "716" [] k = "null" -> "717" [] k = "sk1" -> "721" [] k = "sk2" -> "722"
              [] k = "s1" -> "723" [] k = "s2" -> "724" [] k = "s3" -> "725"
StrVal(k) == "\"http://e.com/*" \o KeyNo(k) \o "*/,}:{\""
ValCode(v, k) ==
  CASE v = "v1"   -> Stmt(<<LitT(KeyNo(k))>>)
    [] v = "vq"   -> Qual("x/d", "V" \o KeyNo(k))
    [] v = "vs"   -> Stmt(<<LitT(StrVal(k))>>)          \* a string literal full of structural characters
    [] v = "null" -> Stmt(<<NullT>>)
    [] v = "vf"   -> Stmt(<<Kw("func"), Grp("params", <<>>), Grp("block", <<Stmt(<<Id("g" \o KeyNo(k)), Grp("call", <<>>)>>)>>)>>)
    [] v = "vd0"  -> Stmt(<<Grp("values", <<Dict(<<Pair(Stmt(<<NullT>>), Stmt(<<LitT("1")>>))>>, <<1>>)>>)>>)      \* renders {} : not null
    [] v = "vd2"  -> Stmt(<<Grp("values", <<Dict(<<Pair(Stmt(<<Id("m")>>), Stmt(<<LitT(KeyNo(k))>>)), Pair(Stmt(<<Id("n")>>), Stmt(<<LitT("2")>>))>>, <<1, 2>>)>>)>>)
\* byte order of every key text that can occur ("1" < "a" < "ab" < "d.K" < "d1.K" < "f ()"; statement items are joined by one blank)
KeyOrder == <<"\"user id\"", "\"user!\"", "\"user\"", "1", "10", "9", "Circle {R:1}", "Square {A:2}", "a", "a1", "ab", "d.K", "d1.K", "f ()", "pkg_d.K", "pkg_d1.K", "zz.K">>
Rank(t) == CHOOSE i \in DOMAIN KeyOrder : KeyOrder[i] = t
\* a dict case: pairs (sequence of <<key, val>> names, first-pass visiting order = sequence order)
DictTree(pairs, order) == Stmt(<<Kw("var"), Id("_"), Op("="), Id("T"), Grp("values", <<Dict([i \in DOMAIN pairs |-> Pair(KeyCode(pairs[i][1], i), ValCode(pairs[i][2], pairs[i][1]))], order)>>)>>)
\* the order of the second pass is the sorted order of the key texts rendered in the first pass
KeyTexts(al, pairs) == DictKeys(DCfg(al), [items |-> [i \in DOMAIN pairs |-> Pair(KeyCode(pairs[i][1], i), ValCode(pairs[i][2], pairs[i][1]))]], 1, <<>>, <<>>, {})[1]
SortedOrder(al, pairs) ==
  LET texts == KeyTexts(al, pairs)
      live  == {i \in DOMAIN pairs : texts[i] # ""}
  IN CHOOSE s \in [1..Len(pairs) -> DOMAIN pairs] :
       /\ \A i \in DOMAIN pairs : \E j \in DOMAIN s : s[j] = i
       /\ \A i, j \in DOMAIN s : (i < j /\ s[i] \in live /\ s[j] \in live) =>
            (Rank(texts[s[i]]) < Rank(texts[s[j]]) \/ (Rank(texts[s[i]]) = Rank(texts[s[j]]) /\ s[i] < s[j]))
       /\ \A i, j \in DOMAIN s : (i < j /\ s[i] \notin live /\ s[j] \notin live) => s[i] < s[j]
       /\ \A i, j \in DOMAIN s : (s[i] \in live /\ s[j] \notin live) => i < j
DictCase(al, pairs) ==
  [kind |-> "c16", alias |-> al, pairs |-> pairs, tree |-> DictTree(pairs, SortedOrder(al, pairs)),
   known |-> IF \E i, j \in DOMAIN pairs : pairs[i][1] = "qx" /\ pairs[j][1] = "qy" /\ pairs[i][2] # "null" /\ pairs[j][2] # "null" THEN "F7"
             ELSE IF \E i, j \in DOMAIN pairs : pairs[i][1] = "f1" /\ pairs[j][1] = "f2" /\ pairs[i][2] # "null" /\ pairs[j][2] # "null" THEN "F6b" ELSE "",
   live |-> Cardinality({i \in DOMAIN pairs : pairs[i][1] # "null" /\ pairs[i][2] # "null"})]
\* distinct keys, except that f1/f2 may both occur (identical text) and qx/qy (colliding base names)
PairSeqs == {ps \in Seqs({kv \in KeyPool \X ValPool : (kv[2] \in BigVals => kv[1] \in BigValKeys) /\ (kv[1] \in StrKeys => kv[2] = "v1")}, MaxArity) :
               \A i, j \in DOMAIN ps : i # j => ps[i][1] # ps[j][1] \/ ps[i][1] = "null"}
DictCases == {DictCase(al, ps) : al \in {"", "zz", "@pkg"}, ps \in PairSeqs}

\* the property on the model: every live pair exactly once as key:value, in key order
PairPieces(ps, i) == Flat(Pieces(KeyCode(ps[i][1], i)))   \* (only used for keys without package references)
Count(ps, s) == Cardinality({i \in DOMAIN ps : ps[i].s = s})
IsPermOf(pairs, p) == /\ Len(p) = Len(pairs) /\ \A i \in DOMAIN pairs : \E j \in DOMAIN p : p[j] = i
Permuted(pairs, p) == [i \in DOMAIN p |-> pairs[p[i]]]
C16_Holds(cs) ==
  LET pv == PiecesA(cs.alias, cs.tree)
      colons == Count(pv, ":")
      liveIdx == {i \in DOMAIN cs.pairs : cs.pairs[i][1] # "null" /\ cs.pairs[i][2] # "null"}
      valText(i) == CASE cs.pairs[i][2] \in {"v1", "vd2"} -> KeyNo(cs.pairs[i][1])
                      [] cs.pairs[i][2] = "vs" -> StrVal(cs.pairs[i][1])
                      [] cs.pairs[i][2] = "vf" -> "g" \o KeyNo(cs.pairs[i][1])
                      [] OTHER -> "V" \o KeyNo(cs.pairs[i][1])
      nested == Cardinality({i \in liveIdx : cs.pairs[i][1] \in {"sk1", "sk2"}})     \* a live struct-literal key has a colon of its own
                + 2 * Cardinality({i \in liveIdx : cs.pairs[i][2] = "vd2"})         \* ... a nested Dict of two pairs has two
      brace == CHOOSE j \in DOMAIN pv : pv[j].s = "{" /\ \A m \in 1..(j - 1) : pv[m].s # "{"     \* the outer literal's brace
  IN /\ colons = cs.live + nested                              \* one "key: value" per live pair
     /\ \A i \in liveIdx : cs.pairs[i][2] # "vd0" => Count(pv, valText(i)) = 1      \* every live pair exactly once (its value names its key)
     /\ Cardinality({i \in DOMAIN pv : pv[i].s = "{"}) = 1 + Cardinality({i \in liveIdx : cs.pairs[i][1] \in {"sk1", "sk2"}})
                                                            + Cardinality({i \in liveIdx : cs.pairs[i][2] \in BigVals})  \* ({} is a value)
     /\ (cs.live > 1) = (pv[brace + 1].c = "nl")               \* several pairs: one per line; one pair: inline, whatever its value looks like
     \* ordered by the rendered text of the keys (under THIS File's settings)
     /\ LET texts == KeyTexts(cs.alias, cs.pairs)
            ord == SelectSeq(cs.tree.items[5].items[1].order, LAMBDA i : texts[i] # "")
        IN \A i \in 1..(Len(ord) - 1) : Rank(texts[ord[i]]) <= Rank(texts[ord[i + 1]])
\* Known findings of C07 (see known-findings.txt): the first pass visits the pairs in map order, and
\*  F7  keys that reference two not yet imported paths with the same base name get their aliases in that order;
\*  F6b keys that render identically keep their visiting order.
LiveKey(cs, k) == \E i \in DOMAIN cs.pairs : cs.pairs[i][1] = k /\ cs.pairs[i][2] # "null"
KnownF7(cs)  == LiveKey(cs, "qx") /\ LiveKey(cs, "qy")
KnownF6b(cs) == LiveKey(cs, "f1") /\ LiveKey(cs, "f2")
\* C07 on the model: the output is the same for every first-pass order (every permutation of the pairs)
C07_Holds(cs) ==
  \A p \in [1..Len(cs.pairs) -> DOMAIN cs.pairs] :
     IsPermOf(cs.pairs, p) =>
       LET qs == Permuted(cs.pairs, p) IN RawA(cs.alias, DictTree(qs, SortedOrder(cs.alias, qs))) = RawA(cs.alias, cs.tree)

(* ----------------------------- C15: comments ---------------------------- *)
Containers == {"block", "defs", "struct", "interface", "caseblock", "file"}
CmtClasses == {"plain", "codelike", "brace", "quote", "slashes", "nl", "nlend", "leadnl", "buildtag"}
CmtText(cl) ==
  CASE cl = "plain"    -> CmtS("note", "line")
    [] cl = "codelike" -> CmtS("x := f(1)", "line")
    [] cl = "brace"    -> CmtS("} ) ]", "line")
    [] cl = "quote"    -> CmtS("say \"hi", "line")
    [] cl = "slashes"  -> CmtS("see a // b", "line")
    [] cl = "buildtag" -> CmtS("+build ignore", "line")     \* text the standard formatter itself interprets (known finding F11)
    [] cl = "nl"       -> CmtS("one\ntwo", "block")
    [] cl = "leadnl"   -> CmtS("\ncounter++", "block")
    [] cl = "nlend"    -> CmtS("one\ntwo\n", "blocknl")
\* items are the statements a1, a2, a3; the comment is an item of its own (before item pos, pos = n+1: last)
\* or is appended at the end of item pos
\* what an item of each container looks like (so that every case is a valid Go file)
ItemStmt(cont, i) ==
  LET a == Id("a" \o ToString(i)) IN
  CASE cont \in {"block", "caseblock", "interface"} -> Stmt(<<a, Grp("call", <<>>)>>)
    [] cont = "defs"   -> Stmt(<<a, Op("="), LitT("1")>>)
    [] cont = "struct" -> Stmt(<<a, Id("int")>>)
    [] cont = "file"   -> Stmt(<<Kw("var"), a, Op("="), LitT("1")>>)
WithCmt(cont, n, cl, mode, pos) ==
  IF mode = "own"
  THEN [i \in 1..(n + 1) |-> IF i < pos THEN ItemStmt(cont, i) ELSE IF i = pos THEN Stmt(<<CmtText(cl)>>) ELSE ItemStmt(cont, i - 1)]
  ELSE [i \in 1..n |-> IF i = pos THEN Stmt(ItemStmt(cont, i).items \o <<CmtText(cl)>>) ELSE ItemStmt(cont, i)]
Wrap(cont, items) ==
  CASE cont = "block"     -> <<Stmt(<<Kw("func"), Id("f"), Grp("params", <<>>), Grp("block", items)>>)>>
    [] cont = "defs"      -> <<Stmt(<<Kw("var"), Grp("defs", items)>>)>>
    [] cont = "struct"    -> <<Stmt(<<Kw("type"), Id("T"), Grp("struct", items)>>)>>
    [] cont = "interface" -> <<Stmt(<<Kw("type"), Id("T"), Grp("interface", items)>>)>>
    [] cont = "caseblock" -> <<Stmt(<<Kw("func"), Id("f"), Grp("params", <<>>), Grp("block",
                                 <<Stmt(<<Grp("switch", <<>>), Grp("block", <<Stmt(<<Grp("case", <<Stmt(<<Id("k")>>)>>), Grp("block", items)>>)>>)>>)>>)>>)>>
    [] cont = "file"      -> items
CmtCase(cont, n, cl, mode, pos) ==
  [kind |-> "c15", cont |-> cont, n |-> n, cl |-> cl, mode |-> mode, pos |-> pos, text |-> CmtText(cl).v,
   base |-> Wrap(cont, [i \in 1..n |-> ItemStmt(cont, i)]), variant |-> Wrap(cont, WithCmt(cont, n, cl, mode, pos))]
CmtCases == {CmtCase(cont, n, cl, mode, pos) : cont \in Containers, n \in 0..3, cl \in CmtClasses, mode \in {"own", "end"},
             pos \in 1..4}
ValidCmt(cs) == IF cs.mode = "own" THEN cs.pos <= cs.n + 1 ELSE cs.pos <= cs.n

\* the code token stream a Go scanner sees: a line comment swallows everything up to the next newline piece
RECURSIVE CodeToks(_, _, _, _)
CodeToks(ps, i, inLine, acc) ==
  IF i > Len(ps) THEN acc
  ELSE LET p == ps[i] IN
       IF p.c = "nl" THEN CodeToks(ps, i + 1, FALSE, acc)
       ELSE IF inLine THEN CodeToks(ps, i + 1, TRUE, acc)
       ELSE IF p.c = "lc" THEN CodeToks(ps, i + 1, TRUE, acc)
       ELSE IF p.c \in {"bc", "sp", "dk"} THEN CodeToks(ps, i + 1, FALSE, acc)
       ELSE CodeToks(ps, i + 1, FALSE, Append(acc, p.s))
FileRaw(body) == FileBody(NoCfg, body, <<>>)[1]
C15_Holds(cs) ==
  LET pv == FileRaw(cs.variant)  pb == FileRaw(cs.base) IN
  /\ CodeToks(pv, 1, FALSE, <<>>) = CodeToks(pb, 1, FALSE, <<>>)
  /\ \E i \in DOMAIN pv : pv[i].c \in {"lc", "bc"}

(* ------------------ C08: rendering twice (case blocks) ------------------ *)
\* switch statements whose clauses are Case(..).Block(..) / Default().Block(..) with every small block,
\* including Block() and Block(nil): rendering must not change what is rendered next
BlockItemKinds == {"x", "nil", "null", "empty"}
Clause(hd, kinds) == Stmt(<<hd, Grp("block", ItemsOf(kinds))>>)
Heads == {Grp("case", <<Stmt(<<Id("k")>>)>>), Kw("default")}
RepeatCase(hd, kinds, extra) ==
  [kind |-> "c08", kinds |-> kinds,
   tree |-> Stmt(<<Kw("func"), Id("f"), Grp("params", <<>>), Grp("block",
              <<Stmt(<<Grp("switch", <<>>), Grp("block", <<Clause(hd, kinds)>> \o extra)>>)>>)>>)]
RepeatCases == {RepeatCase(hd, kinds, extra) : hd \in Heads, kinds \in Seqs(BlockItemKinds, MaxArity),
                extra \in {<<>>, <<Clause(Kw("default"), <<"x">>)>>}}
\* on the model rendering is a function of the tree and the File: the same bytes every time (the heap is not mutated)
C08_Holds(cs) == Raw(cs.tree) = Raw(cs.tree)

(* ------------------------------ the run --------------------------------- *)
\* Lists and dicts are grown one item / pair per step, so that every case is a state and the
\* exploration is spread over TLC's workers; comment cases are initial states.
CaseOf(st) == CASE st.u = "lists" -> ListCase(st.name, st.kinds)
                [] st.u = "dicts" -> DictCase(st.alias, st.pairs)
                [] st.u \in {"comments", "repeat"} -> st.cs
Init == CASE Universe = "lists"    -> c \in {[u |-> "lists", name |-> n, kinds |-> <<>>] : n \in ListConstructs}
                                        \cup {[u |-> "lists", name |-> n, kinds |-> LongKinds(len, p)] : n \in ListConstructs, len \in LongLens, p \in DOMAIN LongPats}
          [] Universe = "dicts"    -> c \in {[u |-> "dicts", alias |-> al, pairs |-> <<>>] : al \in {"", "zz", "@pkg"}}
          [] Universe = "comments" -> c \in {[u |-> "comments", cs |-> x] : x \in {y \in CmtCases : ValidCmt(y)}}
          [] Universe = "repeat"   -> c \in {[u |-> "repeat", cs |-> x] : x \in RepeatCases}
Next == \/ /\ c.u = "lists" /\ Len(c.kinds) < MaxArity
           /\ \E k \in ItemKinds : c' = [c EXCEPT !.kinds = Append(@, k)]
        \/ /\ c.u = "dicts" /\ Len(c.pairs) < (IF c.alias = "@pkg" THEN 2 ELSE MaxArity)     \* (the prefixed File: pairs of keys are enough)
           /\ \E k \in KeyPool, v \in ValPool :
                /\ (v \in BigVals => k \in BigValKeys) /\ (k \in StrKeys => v = "v1")
                /\ \A i \in DOMAIN c.pairs : c.pairs[i][1] # k \/ k = "null"
                /\ c' = [c EXCEPT !.pairs = Append(@, <<k, v>>)]
Spec == Init /\ [][Next]_c
Holds == LET cs == CaseOf(c) IN
         CASE cs.kind = "c13" -> C13_Holds(cs)
           [] cs.kind = "c16" -> C16_Holds(cs) /\ (~KnownF7(cs) /\ ~KnownF6b(cs) => C07_Holds(cs))
           [] cs.kind = "c15" -> C15_Holds(cs)
           [] cs.kind = "c08" -> C08_Holds(cs)
OutFile == "cases.ndjson"
Emit == CSVWrite("%1$s", <<ToJson(CaseOf(c))>>, OutFile)
=============================================================================
