SPECIFICATION TSpec
CONSTANTS
  Legacy = {}
  Jobs = {1, 2, 3}
  NRefs = 3
  SharedCounter = FALSE
  TraceFile = "trace.ndjson"
  VFile = "viol.ndjson"
POSTCONDITION Accepted
CHECK_DEADLOCK FALSE
