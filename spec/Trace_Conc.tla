----------------------------- MODULE Trace_Conc -----------------------------
(***************************************************************************)
(* Trace validation for C09.  Events:                                      *)
(*  sched : job j's output after a TLC-generated interleaving of register  *)
(*          steps (replayed with the register hook as scheduler gate);     *)
(*  order : File j's output after the Files of a set that SHARE statements *)
(*          were rendered sequentially in one of all possible orders;      *)
(*  free  : job j's output from free-running goroutines (race build);      *)
(*  race  : the race detector's verdict for the free run.                  *)
(* (B) for sched events the model (JenConc!Solo through Jen!RenderFile)    *)
(* predicts the bytes; (C) every job's output equals its output when run   *)
(* alone, and no data race was reported.                                   *)
(***************************************************************************)
EXTENDS JenConc

CONSTANTS TraceFile, VFile
Trace == ndJsonDeserialize(TraceFile)
VARIABLE l
E == Trace[l]
Report(prop, key) == CSVWrite("%1$s", <<ToJson([prop |-> prop, trace |-> E.id, line |-> l, key |-> key])>>, VFile)

Sym(r) == "S" \o ToString(r)
Body(j, refs) == [r \in 1..refs |-> Stmt(<<Kw("var"), Id("_"), Op("="), QualG(RefPath(j, r), Sym(r))>>)]
Quote(p) == "\"" \o p \o "\""
CfgQ(j) == [JobCfg(j) EXCEPT !.paths = [p \in DOMAIN @ |-> [std |-> "", guess |-> "d", quoted |-> Quote(p)]]]
ModelRaw(j, refs) == Flat(RenderFile(CfgQ(j), [name |-> "main", canonicalq |-> "", headers |-> <<>>, comments |-> <<>>, preamble |-> <<>>],
                                     Body(j, refs), <<>>, <<"x/d", "y/d", "z/d">>)[1])
Mon ==
  \/ /\ E.ev = "race"
     /\ E.found => Report("C09", "data race reported by the race detector")
  \/ /\ E.ev \in {"sched", "order", "free"}
     /\ (E.ev = "sched" /\ E.solostatus = "nil" /\ ModelRaw(E.job, E.refs) # E.solo) => Report("DRIFT", "solo output")
     /\ (E.status # E.solostatus \/ E.got # E.solo) =>
          Report("C09", CASE E.ev = "sched" -> "output depends on the interleaving with other Files"
                          [] E.ev = "order" -> "output depends on which Files were rendered before (shared statements)"
                          [] E.ev = "free"  -> "output differs under concurrent use")
TInit == l = 1 /\ pc = <<>> /\ imps = <<>> /\ counter = 0 /\ sched = <<>>
TNext == l <= Len(Trace) /\ l' = l + 1 /\ Mon /\ UNCHANGED vars
TSpec == TInit /\ [][TNext]_<<vars, l>>
Accepted == TLCGet("stats").diameter - 1 = Len(Trace)
=============================================================================
