----------------------------- MODULE MC_System -----------------------------
(* Bounded instances of JenSystem: exhaustive for tiny bounds, TLC -simulate for long behaviours. *)
EXTENDS JenSystem

Master == <<"crypto/rand", "fmt", "loc/al", "math/rand", "x/d", "x/go", "y/d", "z/d1">>          \* byte order
Info(std, guess, q, s) == [std |-> std, guess |-> guess, quoted |-> q, sym |-> s]
MCPathInfo ==
  [p \in {Master[i] : i \in DOMAIN Master} |->
     CASE p = "crypto/rand" -> Info("rand", "rand", "\"crypto/rand\"", "S1")
       [] p = "fmt"         -> Info("fmt", "fmt", "\"fmt\"", "S2")
       [] p = "loc/al"      -> Info("", "al", "\"loc/al\"", "S3")
       [] p = "math/rand"   -> Info("rand", "rand", "\"math/rand\"", "S4")
       [] p = "x/d"         -> Info("", "d", "\"x/d\"", "S5")
       [] p = "x/go"        -> Info("", "go", "\"x/go\"", "S6")
       [] p = "y/d"         -> Info("", "d", "\"y/d\"", "S7")
       [] p = "z/d1"        -> Info("", "d1", "\"z/d1\"", "S8")]
MCSorted == SelectSeq(Master, LAMBDA p : p \in Paths)
FileSettings == {[local |-> l, prefix |-> x, noformat |-> nf] : l \in {"", "loc/al"}, x \in {"", "pkg"}, nf \in BOOLEAN}
FileSettingsSmall == {[local |-> "", prefix |-> "", noformat |-> TRUE], [local |-> "x/d", prefix |-> "pkg", noformat |-> TRUE]}
CmtPoolSmall == {Cmt("ca")}
CmtPoolSim == {Cmt("ca"), Cmt("cb"), CmtS("cc\ncd", "block")}
=============================================================================
