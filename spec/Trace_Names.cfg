SPECIFICATION Spec
CONSTANTS
  TraceFile = "trace.ndjson"
  VFile = "viol.ndjson"
POSTCONDITION Accepted
CHECK_DEADLOCK FALSE
