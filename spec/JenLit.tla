------------------------------- MODULE JenLit -------------------------------
(***************************************************************************)
(* Literal, string, rune, byte and struct-tag FORMS over character and     *)
(* number classes (C11 C12 C17).  The specification decides the form and   *)
(* type rules and the interaction of the quoting layers; the values        *)
(* themselves (numeric equality, unquoting, reflect.StructTag) are         *)
(* measured by the Go standard library on the real output and arrive in    *)
(* traces as flags.                                                        *)
(***************************************************************************)
EXTENDS Integers, Sequences, FiniteSets, TLC

(* ------------------------------ C11 numbers ------------------------------ *)
DefaultTypes == {"bool", "int", "float64", "complex128", "string"}
TypedTypes   == {"float32", "int8", "int16", "int32", "int64", "uint", "uint8", "uint16", "uint32", "uint64", "uintptr", "complex64"}
LitTypes     == DefaultTypes \cup TypedTypes
\* shape of the digits fmt's %#v produces for a float: no point and no exponent | has a point | has an exponent
FloatShapes  == {"integral", "point", "exp"}
\* the form jennifer gives a literal: what is written around the %#v text
LitForm(type, shape) ==
  CASE type \in {"bool", "int", "string", "complex128"} -> "bare"
    [] type = "float64" -> IF shape = "integral" THEN "bare.0" ELSE "bare"
    [] type = "complex64" -> "typed"          \* complex64(1+2i): %#v already supplies the parentheses
    [] OTHER -> "typed"                       \* T(x)
\* the type Go gives the rendered constant expression
ConstType(type, shape, form) ==
  CASE form = "typed" -> type
    [] form = "bare.0" -> "float64"
    [] form = "bare" -> CASE type = "bool" -> "bool" [] type = "string" -> "string" [] type = "complex128" -> "complex128"
                          [] type = "int" -> "int"
                          [] type = "float64" -> IF shape = "integral" THEN "int" ELSE "float64"
                          [] OTHER -> "untyped"
C11_TypeRule == \A t \in LitTypes, s \in FloatShapes : ConstType(t, s, LitForm(t, s)) = t

(* ------------------------- C12 strings, runes, bytes --------------------- *)
\* character classes of the input
Classes == {"plain", "dquote", "squote", "backquote", "backslash", "newline", "tab", "ctrl", "del", "uniprint", "uninonprint", "badutf8"}
\* how strconv.Quote writes one character of a class inside "...": the class of what is written
Quoted(c) == CASE c \in {"plain", "squote", "backquote", "uniprint"} -> <<c>>
               [] c = "dquote"    -> <<"backslash", "dquote">>
               [] c = "backslash" -> <<"backslash", "backslash">>
               [] c = "newline"   -> <<"backslash", "plain">>       \* \n
               [] c = "tab"       -> <<"backslash", "plain">>       \* \t
               [] c \in {"ctrl", "del", "badutf8"} -> <<"backslash", "plain", "plain", "plain">>   \* \x7f
               [] c = "uninonprint" -> <<"backslash", "plain", "plain", "plain", "plain", "plain">> \* ​
RECURSIVE QuoteSeq(_)
QuoteSeq(cs) == IF cs = <<>> THEN <<>> ELSE Quoted(Head(cs)) \o QuoteSeq(Tail(cs))
\* a Go scanner reading an interpreted string body: stops at an unescaped " or at a raw newline
RECURSIVE ScanOK(_, _)
ScanOK(ws, esc) == IF ws = <<>> THEN ~esc
                   ELSE IF esc THEN ScanOK(Tail(ws), FALSE)
                   ELSE IF Head(ws) = "backslash" THEN ScanOK(Tail(ws), TRUE)
                   ELSE Head(ws) \notin {"dquote", "newline", "ctrl", "badutf8"} /\ ScanOK(Tail(ws), FALSE)
\* unquoting the written form gives back the class sequence (escape sequences are decoded by what follows the backslash)
RECURSIVE Unq(_, _)
Unq(ws, orig) == IF ws = <<>> THEN orig = <<>>
                 ELSE IF orig = <<>> THEN FALSE
                 ELSE LET w == Quoted(Head(orig)) IN
                      Len(ws) >= Len(w) /\ SubSeq(ws, 1, Len(w)) = w /\ Unq(SubSeq(ws, Len(w) + 1, Len(ws)), Tail(orig))
SeqsUpTo(S, n) == UNION {[1..k -> S] : k \in 0..n}
C12_OneToken   == \A cs \in SeqsUpTo(Classes, 3) : ScanOK(QuoteSeq(cs), FALSE)
C12_RoundTrip  == \A cs \in SeqsUpTo(Classes, 3) : Unq(QuoteSeq(cs), cs)
\* what the monitor expects of an observation: exactly one literal token of the right kind, value round-trips
LitKind(kind) == CASE kind = "string" -> "STRING" [] kind = "rune" -> "CHAR" [] kind = "byte" -> "byte(INT)"

(* ------------------------------ C17 tags -------------------------------- *)
\* str = key:%q(value) pairs joined by blanks (inner layer); the literal is `str` when str can be backquoted,
\* strconv.Quote(str) otherwise (outer layer).  reflect reads the VALUE of the literal = str.
CanBackquoteClass(c) == c \in {"plain", "dquote", "squote", "backslash", "uniprint", "tab"}   \* no backquote, no control chars
TagInner(vs) == QuoteSeq(vs)                                       \* %q of one value
TagRaw(inner) == \A i \in DOMAIN inner : CanBackquoteClass(inner[i])
\* reflect.StructTag scans "..." of the inner layer exactly like a Go scanner scans an interpreted string
C17_InnerScans == \A vs \in SeqsUpTo(Classes, 3) : ScanOK(TagInner(vs), FALSE) /\ Unq(TagInner(vs), vs)
\* the inner layer never contains a raw backquote unless the value has one: then the outer layer is interpreted
C17_LayerChoice == \A vs \in SeqsUpTo(Classes, 3) :
                      TagRaw(TagInner(vs)) = (\A i \in DOMAIN vs : vs[i] \notin {"backquote"})
\* (control characters, newlines, DEL, bad UTF-8 and non-printable runes never reach the inner layer raw: %q escapes them)
TagStyle(hasBackquote) == IF hasBackquote THEN "interpreted" ELSE "raw"

VARIABLE x
Init == x = 0
Next == UNCHANGED x
Spec == Init /\ [][Next]_x
Holds == C11_TypeRule /\ C12_OneToken /\ C12_RoundTrip /\ C17_InnerScans /\ C17_LayerChoice
=============================================================================
