----------------------------- MODULE JenSystem -----------------------------
(***************************************************************************)
(* The whole library as ONE state machine: a heap of Statements that are   *)
(* mutated in place and shared by reference, several Files each with its   *)
(* own import registry, and observations (File.Render, RenderWithFile) as  *)
(* ordinary steps.  It composes what the family specifications model       *)
(* separately (JenSys: one File; JenHeap: cells; JenConc: several Files),  *)
(* so that behaviours like                                                 *)
(*    build s, add s to f and g, render f, append to s, clone s, render a  *)
(*    fragment with g (which fails to format), hint g, render g, render f  *)
(* are explored (TLC -simulate for long behaviours, exhaustively for small *)
(* bounds) and replayed on the real library.                               *)
(*                                                                         *)
(* Implementation-shaped: a Statement is a cell holding items; builder     *)
(* calls append to the cell IN PLACE; Add(s) / group operands store the    *)
(* POINTER (later appends to s show wherever s was added); Clone() is a    *)
(* new cell whose only item is a reference to the original (statement.go); *)
(* rendering resolves the heap to a tree and threads the File's registry   *)
(* through it (Jen!R), so File.imports is mutated by every render - also   *)
(* by a fragment render whose output then fails to format.                 *)
(***************************************************************************)
EXTENDS Jen, Json, CSV

CONSTANTS
  Paths, PathInfo, Sorted,     \* as in JenSys
  FilePool,                    \* possible File settings [local, prefix, noformat]
  NFiles,
  HintNames,
  MaxCells, MaxOps, MaxItems,
  CmtPool,                     \* the comment values that the front-matter calls may be given (Jen!Cmt / Jen!CmtS)
  MaxMeta,                     \* bound on the header + package comment + preamble lines (+ 1 for a canonical path) of one File
  SysExport                    \* TRUE: the history of every finished behaviour is written to OutFile

VARIABLES
  cells,    \* Seq of [items : Seq(item)]    item: id | kw | op | qual | ref (Add(s)) | grp (operands are cells)
  files,    \* Seq of [local, prefix, noformat, hints, imps, body : Seq(cell id, or -g: File g added as a Code value), anons, claims,
            \*         fm : front matter [headers, comments, preamble : Seq(cmt), canonical]]
  ntok,     \* fresh identifier counter
  obs,      \* last observation
  bound,    \* history: file -> path -> qualifier first seen in any output produced with the File
  nops, hist

vars == <<cells, files, ntok, obs, bound, nops, hist>>
view == <<cells, files, ntok, obs, bound, nops>>

NoObs == [kind |-> "none", f |-> 0, c |-> 0, text |-> "", toks |-> <<>>, refs |-> {}, bare |-> {}, specs |-> {}, imps |-> <<>>]

(* ------------------------- the heap as Code trees ------------------------ *)
RECURSIVE Tree(_, _), ItemCode(_, _), Reach(_, _)
ItemCode(cs, it) ==
  CASE it.t = "id"   -> Id(it.v)
    [] it.t = "kw"   -> Kw(it.v)
    [] it.t = "op"   -> Op(it.v)
    [] it.t = "null" -> NullT
    [] it.t = "qual" -> QualG(it.p, it.v)
    [] it.t = "ref"  -> Tree(cs, it.c)
    [] it.t = "grp"  -> Grp(it.v, [i \in DOMAIN it.refs |-> Tree(cs, it.refs[i])])
Tree(cs, c) == Stmt([i \in DOMAIN cs[c].items |-> ItemCode(cs, cs[c].items[i])])
\* cells reachable from c (through Add, Clone and group operands)
Direct(cs, c) == UNION {IF cs[c].items[i].t = "ref" THEN {cs[c].items[i].c}
                         ELSE IF cs[c].items[i].t = "grp" THEN {cs[c].items[i].refs[j] : j \in DOMAIN cs[c].items[i].refs}
                         ELSE {} : i \in DOMAIN cs[c].items}
Reach(cs, c) == {c} \cup UNION {Reach(cs, d) : d \in Direct(cs, c)}
\* the same without the edge from a clone to its original (whether a clone follows later appends to its original is left
\* open by the properties: a view does, a true copy does not)
RECURSIVE ReachNC(_, _)
DirectNC(cs, c) == UNION {IF cs[c].items[i].t = "ref" /\ cs[c].items[i].v # "clone" THEN {cs[c].items[i].c}
                           ELSE IF cs[c].items[i].t = "grp" THEN {cs[c].items[i].refs[j] : j \in DOMAIN cs[c].items[i].refs}
                           ELSE {} : i \in DOMAIN cs[c].items}
ReachNC(cs, c) == {c} \cup UNION {ReachNC(cs, d) : d \in DirectNC(cs, c)}

Sym(p) == PathInfo[p].sym
Item(t, v) == [t |-> t, v |-> v, p |-> "", c |-> 0, refs |-> <<>>]
QualItem(p) == [t |-> "qual", v |-> Sym(p), p |-> p, c |-> 0, refs |-> <<>>]
RefItem(c)  == [t |-> "ref", v |-> "", p |-> "", c |-> c, refs |-> <<>>]
CloneItem(c) == [t |-> "ref", v |-> "clone", p |-> "", c |-> c, refs |-> <<>>]     \* the item a clone holds: its original
GrpItem(g, rs) == [t |-> "grp", v |-> g, p |-> "", c |-> 0, refs |-> rs]
Fresh == "t" \o ToString(ntok + 1)

NoFM == [headers |-> <<>>, comments |-> <<>>, preamble |-> <<>>, canonical |-> ""]
Init ==
  /\ cells = <<>> /\ ntok = 0 /\ obs = NoObs /\ nops = 0
  /\ \E fs \in [1..NFiles -> FilePool] :
       /\ files = [i \in 1..NFiles |-> [local |-> fs[i].local, prefix |-> fs[i].prefix, noformat |-> fs[i].noformat,
                                        hints |-> <<>>, imps |-> <<>>, body |-> <<>>, anons |-> {}, claims |-> <<>>, fm |-> NoFM]]
       /\ hist = <<[a |-> "Files", f |-> 0, c |-> 0, d |-> 0, p |-> "", n |-> "", refs |-> <<>>,
                    files |-> [i \in 1..NFiles |-> fs[i]]]>>
  /\ bound = [i \in 1..NFiles |-> <<>>]

Step == nops < MaxOps /\ nops' = nops + 1
H(a, f, c, d, p, n, rs) == hist' = Append(hist, [a |-> a, f |-> f, c |-> c, d |-> d, p |-> p, n |-> n, refs |-> rs, files |-> <<>>])
Room(c) == Len(cells[c].items) < MaxItems
App(c, it) == cells' = [cells EXCEPT ![c].items = Append(@, it)]

(* ------------------------------ build calls ------------------------------ *)
\* jen.Var().Id("_").Op("=").Id(tN): a declaration, so that a File that holds it can be formatted
NewVar == /\ Step /\ Len(cells) < MaxCells /\ H("NewVar", 0, 0, 0, "", Fresh, <<>>)
          /\ cells' = Append(cells, [items |-> <<Item("kw", "var"), Item("id", "_"), Item("op", "="), Item("id", Fresh)>>])
          /\ ntok' = ntok + 1 /\ UNCHANGED <<files, obs, bound>>
\* jen.Id(tN)
NewId == /\ Step /\ Len(cells) < MaxCells /\ H("NewId", 0, 0, 0, "", Fresh, <<>>)
         /\ cells' = Append(cells, [items |-> <<Item("id", Fresh)>>])
         /\ ntok' = ntok + 1 /\ UNCHANGED <<files, obs, bound>>
\* jen.Qual(p, Sym(p))
NewQual(p) == /\ Step /\ Len(cells) < MaxCells /\ H("NewQual", 0, 0, 0, p, Sym(p), <<>>)
              /\ cells' = Append(cells, [items |-> <<QualItem(p)>>])
              /\ UNCHANGED <<files, ntok, obs, bound>>
\* jen.Null(): a placeholder that renders nothing until something is appended to it
NewNull == /\ Step /\ Len(cells) < MaxCells /\ H("NewNull", 0, 0, 0, "", "", <<>>)
           /\ cells' = Append(cells, [items |-> <<Item("null", "")>>])
           /\ UNCHANGED <<files, ntok, obs, bound>>
\* s.Id(tN): two adjacent identifiers do not format (the failing renders of the system tier)
AppId(c) == /\ Step /\ Room(c) /\ H("AppId", 0, c, 0, "", Fresh, <<>>) /\ App(c, Item("id", Fresh))
            /\ ntok' = ntok + 1 /\ UNCHANGED <<files, obs, bound>>
\* s.Dot(tN)
AppDot(c) == /\ Step /\ Room(c) /\ H("AppDot", 0, c, 0, "", Fresh, <<>>)
             /\ cells' = [cells EXCEPT ![c].items = @ \o <<Item("op", "."), Item("id", Fresh)>>]
             /\ ntok' = ntok + 1 /\ UNCHANGED <<files, obs, bound>>
\* s.Op("+").Qual(p, Sym(p))
AppQual(c, p) == /\ Step /\ Room(c) /\ H("AppQual", 0, c, 0, p, Sym(p), <<>>)
                 /\ cells' = [cells EXCEPT ![c].items = @ \o <<Item("op", "+"), QualItem(p)>>]
                 /\ UNCHANGED <<files, ntok, obs, bound>>
\* s.Call(d...) / s.Index(d...) / s.List(d...) (fv = 0) or the ...Func variant whose callback adds the same operands
\* (fv = 1; C14: it builds the same group): the operands are stored by pointer.  List has no open / close token: it is
\* null exactly as long as all its operands are
AppGroup(c, g, rs, fv) == /\ Step /\ Room(c) /\ \A i \in DOMAIN rs : c \notin Reach(cells, rs[i])
                          /\ H("AppGroup", 0, c, fv, "", g, rs) /\ App(c, GrpItem(g, rs))
                          /\ UNCHANGED <<files, ntok, obs, bound>>
\* s.Add(d): stores the pointer to d
AddRef(c, d) == /\ Step /\ Room(c) /\ c \notin Reach(cells, d)
                /\ H("AddRef", 0, c, d, "", "", <<>>) /\ App(c, RefItem(d))
                /\ UNCHANGED <<files, ntok, obs, bound>>
\* s.Clone(): a new Statement whose only item is the original
CloneCell(c) == /\ Step /\ Len(cells) < MaxCells /\ H("Clone", 0, c, 0, "", "", <<>>)
                /\ cells' = Append(cells, [items |-> <<CloneItem(c)>>])
                /\ UNCHANGED <<files, ntok, obs, bound>>

(* ------------------------------ File calls ------------------------------- *)
FileAdd(f, c) == /\ Step /\ Len(files[f].body) < MaxItems /\ H("FileAdd", f, c, 0, "", "", <<>>)
                 /\ files' = [files EXCEPT ![f].body = Append(@, c)]
                 /\ UNCHANGED <<cells, ntok, obs, bound>>
\* f.Add(g) with g a *File: a File is a Code value (its Group); it renders its items, one per line, inside f and with
\* f's registry - g's own settings and import table play no role there, and g is not changed
RECURSIVE FReach(_, _)
FReach(fs, g) == {g} \cup UNION {FReach(fs, -fs[g].body[i]) : i \in {j \in DOMAIN fs[g].body : fs[g].body[j] < 0}}
FileAddFile(f, g) == /\ Step /\ Len(files[f].body) < MaxItems /\ f \notin FReach(files, g)
                     /\ H("FileAddFile", f, 0, g, "", "", <<>>)
                     /\ files' = [files EXCEPT ![f].body = Append(@, -g)]
                     /\ UNCHANGED <<cells, ntok, obs, bound>>
\* (Do...: the call itself; the guards of ImportName / Anon are the DOMAIN of the listed properties - no false claim about a
\*  standard-library package, one name per package, no Anon of an already referenced path or of the File's own path)
DoImportName(f, p, n) ==
  /\ Step /\ H("ImportName", f, 0, 0, p, n, <<>>)
  /\ files' = [files EXCEPT ![f].hints = Put(@, p, Def(n, FALSE)),
                            ![f].claims = IF p = "C" \/ n = "" THEN @ ELSE Put(@, p, Find2(@, p) \cup {n})]
  /\ UNCHANGED <<cells, ntok, obs, bound>>
ImportName(f, p, n) ==
  /\ (PathInfo[p].std # "" /\ n # "") => n = PathInfo[p].std
  /\ n = "" \/ Find2(files[f].claims, p) \subseteq {n}
  /\ DoImportName(f, p, n)
ImportAlias(f, p, n) ==
  /\ Step /\ H("ImportAlias", f, 0, 0, p, n, <<>>)
  /\ files' = [files EXCEPT ![f].hints = Put(@, p, Def(n, TRUE))]
  /\ UNCHANGED <<cells, ntok, obs, bound>>
DoAnon(f, p) ==
  /\ Step /\ H("Anon", f, 0, 0, p, "", <<>>)
  /\ files' = [files EXCEPT ![f].imps = Put(@, p, Def("_", TRUE)), ![f].anons = @ \cup {p}]
  /\ UNCHANGED <<cells, ntok, obs, bound>>

\* front matter: f.HeaderComment(t), f.PackageComment(t), f.CgoPreamble(t) append; f.CanonicalPath = p replaces.  They change
\* nothing but the File they are called on, whenever they are called - also between two renders of the same File
MetaRoom(f) == Len(files[f].fm.headers) + Len(files[f].fm.comments) + Len(files[f].fm.preamble) + (IF files[f].fm.canonical = "" THEN 0 ELSE 1) < MaxMeta
FileHeader(f, cm) == /\ Step /\ MetaRoom(f) /\ H("Header", f, 0, 0, cm.st, cm.v, <<>>)
                     /\ files' = [files EXCEPT ![f].fm.headers = Append(@, cm)]
                     /\ UNCHANGED <<cells, ntok, obs, bound>>
FilePkgComment(f, cm) == /\ Step /\ MetaRoom(f) /\ H("PkgComment", f, 0, 0, cm.st, cm.v, <<>>)
                         /\ files' = [files EXCEPT ![f].fm.comments = Append(@, cm)]
                         /\ UNCHANGED <<cells, ntok, obs, bound>>
FilePreamble(f, cm) == /\ Step /\ MetaRoom(f) /\ H("Preamble", f, 0, 0, cm.st, cm.v, <<>>)
                       /\ files' = [files EXCEPT ![f].fm.preamble = Append(@, cm)]
                       /\ UNCHANGED <<cells, ntok, obs, bound>>
FileCanonical(f, p) == /\ Step /\ MetaRoom(f) /\ H("Canonical", f, 0, 0, p, "", <<>>)
                       /\ files' = [files EXCEPT ![f].fm.canonical = p]
                       /\ UNCHANGED <<cells, ntok, obs, bound>>

Anon(f, p) == Find(files[f].imps, p).name \in {"", "_"} /\ p # files[f].local /\ DoAnon(f, p)

(* ------------------------------ observations ----------------------------- *)
CfgOf(f) == [local |-> files[f].local, prefix |-> files[f].prefix, hints |-> files[f].hints, paths |-> PathInfo]
FCOf(f) == [name |-> "main", canonicalq |-> IF files[f].fm.canonical = "" THEN "" ELSE "\"" \o files[f].fm.canonical \o "\"",
            headers |-> files[f].fm.headers, comments |-> files[f].fm.comments, preamble |-> files[f].fm.preamble]
Toks(ps) == LET q == SelectSeq(ps, LAMBDA x : x.c \in {"t", "pk"} /\ x.s # "") IN [i \in DOMAIN q |-> q[i].s]
Bind(b, refs, bare) == [p \in DOMAIN b \cup {r[1] : r \in refs} \cup bare |->
                          IF p \in DOMAIN b THEN b[p] ELSE IF p \in bare THEN "" ELSE (CHOOSE r \in refs : r[1] = p)[2]]
RECURSIVE BodyTrees(_)
BodyTrees(f) == [i \in DOMAIN files[f].body |->
                   IF files[f].body[i] > 0 THEN Tree(cells, files[f].body[i])
                   ELSE Custom("", "", "", TRUE, BodyTrees(-files[f].body[i]))]
RECURSIVE BodyCells(_)
BodyCells(f) == UNION {IF files[f].body[i] > 0 THEN {files[f].body[i]} ELSE BodyCells(-files[f].body[i]) : i \in DOMAIN files[f].body}

RenderFileStep(f) ==
  /\ Step /\ H("Render", f, 0, 0, "", "", <<>>)
  /\ LET r  == RenderFile(CfgOf(f), FCOf(f), BodyTrees(f), files[f].imps, Sorted)
         bp == FileBody(CfgOf(f), BodyTrees(f), files[f].imps)[1]
     IN /\ files' = [files EXCEPT ![f].imps = r[2]]
        /\ obs' = [kind |-> "file", f |-> f, c |-> 0, text |-> Flat(r[1]), toks |-> Toks(r[1]), refs |-> Refs(bp), bare |-> Bare(bp),
                   specs |-> Specs(r[2]), imps |-> r[2]]
        /\ bound' = [bound EXCEPT ![f] = Bind(@, Refs(bp), Bare(bp))]
  /\ UNCHANGED <<cells, ntok>>
\* s.RenderWithFile(w, f): registers into f whether or not the result formats
RenderFragStep(c, f) ==
  /\ Step /\ H("Frag", f, c, 0, "", "", <<>>)
  /\ LET r == RenderFragment(CfgOf(f), Tree(cells, c), files[f].imps)
     IN /\ files' = [files EXCEPT ![f].imps = r[2]]
        /\ obs' = [kind |-> "frag", f |-> f, c |-> c, text |-> Flat(r[1]), toks |-> Toks(r[1]), refs |-> Refs(r[1]), bare |-> Bare(r[1]),
                   specs |-> {}, imps |-> r[2]]
        /\ bound' = [bound EXCEPT ![f] = Bind(@, Refs(r[1]), Bare(r[1]))]
  /\ UNCHANGED <<cells, ntok>>

\* s.Render(w) / s.GoString(): a fresh, empty File for this call only - no File of the system is touched
EmptyCfg == [local |-> "", prefix |-> "", hints |-> <<>>, paths |-> PathInfo]
RenderPlainStep(c) ==
  /\ Step /\ H("Plain", 0, c, 0, "", "", <<>>)
  /\ LET r == RenderFragment(EmptyCfg, Tree(cells, c), <<>>)
     IN obs' = [kind |-> "plain", f |-> 0, c |-> c, text |-> Flat(r[1]), toks |-> Toks(r[1]), refs |-> Refs(r[1]), bare |-> Bare(r[1]),
                specs |-> {}, imps |-> r[2]]
  /\ UNCHANGED <<cells, files, ntok, bound>>

\* the end of a behaviour: its history is exported for the replay harness
OutFile == "system.ndjson"
Finish == /\ nops = MaxOps /\ nops' = MaxOps + 1
          /\ (SysExport => CSVWrite("%1$s", <<ToJson(hist)>>, OutFile))
          /\ UNCHANGED <<cells, files, ntok, obs, bound, hist>>

Next ==
  \/ NewVar \/ NewId \/ NewNull \/ \E p \in Paths : NewQual(p)
  \/ \E c \in DOMAIN cells : AppId(c) \/ AppDot(c) \/ CloneCell(c) \/ \E p \in Paths : AppQual(c, p)
  \/ \E c, d \in DOMAIN cells : AddRef(c, d) \/ \E g \in {"call", "index", "list"}, fv \in {0, 1} : AppGroup(c, g, <<d>>, fv)
  \/ \E c, d, e \in DOMAIN cells : \E g \in {"call", "list"} : AppGroup(c, g, <<d, e>>, 0)
  \/ \E f \in DOMAIN files, c \in DOMAIN cells : FileAdd(f, c) \/ RenderFragStep(c, f)
  \/ \E f \in DOMAIN files, p \in Paths : Anon(f, p) \/ \E n \in HintNames : ImportAlias(f, p, n) \/ (n # "." /\ ImportName(f, p, n))
  \/ \E f \in DOMAIN files : RenderFileStep(f)
  \/ \E f, g \in DOMAIN files : FileAddFile(f, g)
  \/ \E f \in DOMAIN files, cm \in CmtPool : FileHeader(f, cm) \/ FilePkgComment(f, cm) \/ FilePreamble(f, cm)
  \/ \E f \in DOMAIN files : FileCanonical(f, "example.com/canon")
  \/ \E c \in DOMAIN cells : RenderPlainStep(c)
  \/ Finish
Spec == Init /\ [][Next]_vars

(* -------------------------------- properties ----------------------------- *)
RealNames(f, p) == Find2(files[f].claims, p) \cup (IF PathInfo[p].std # "" THEN {PathInfo[p].std} ELSE {})
Provides(f, s, q) == IF s.name # "" THEN s.name = q ELSE q \in RealNames(f, s.path)
\* C03 in every File render of the system
Sys_Resolve ==
  obs.kind = "file" =>
    /\ \A r \in obs.refs : \E s \in obs.specs : s.path = r[1] /\ s.name \notin {"_", "."} /\ Provides(obs.f, s, r[2])
    /\ \A r1, r2 \in obs.refs : r1[1] = r2[1] => r1[2] = r2[2]
    /\ \A r \in obs.refs : \A s \in obs.specs : (s.path # r[1] /\ s.name \notin {"_", "."}) => ~Provides(obs.f, s, r[2])
\* C05
Sys_Unique ==
  obs.kind = "file" =>
    \A s1, s2 \in obs.specs : (s1.path # s2.path /\ s1.name # "" /\ s1.name \notin {"_", "."})
                                 => (s1.name # s2.name /\ (s2.name = "" => s1.name \notin RealNames(obs.f, s2.path)))
\* C06
Sys_LocalDot ==
  obs.kind \in {"file", "frag"} =>
    /\ \A r \in obs.refs : r[1] # files[obs.f].local
    /\ obs.kind = "file" => \A p \in obs.bare : p = files[obs.f].local \/ \E s \in obs.specs : s.path = p /\ s.name = "."
\* C08: names are stable per File, whatever happens to the heap and to other Files
Sys_Stable ==
  obs.kind \in {"file", "frag"} =>
    /\ \A r \in obs.refs : r[1] \in DOMAIN bound[obs.f] => bound[obs.f][r[1]] = r[2]
    /\ \A p \in obs.bare : p \in DOMAIN bound[obs.f] => bound[obs.f][p] = ""
Sys_BoundNeverChanges == [][\A f \in DOMAIN bound : \A p \in DOMAIN bound[f] : p \in DOMAIN bound'[f] /\ bound'[f][p] = bound[f][p]]_vars
\* C09: an action on File f leaves every other File untouched (no hidden shared state in the model: this is the claim
\* the replay checks against the real library)
Sys_FilesIndependent == [][\A f \in DOMAIN files : (hist' # hist /\ hist'[Len(hist')].f # f) => files'[f] = files[f]]_vars
\* C08: an observation changes no Statement
Sys_RenderPure == [][(hist' # hist /\ hist'[Len(hist')].a \in {"Render", "Frag", "Plain"}) => cells' = cells]_vars
\* C14: Render / GoString with their implicit fresh File touch no File of the system
Sys_PlainTouchesNoFile == [][(hist' # hist /\ hist'[Len(hist')].a = "Plain") => files' = files]_vars
\* C20: an append to a clone never changes what the original renders (same File state)
Sys_CloneIsolation ==
  [][\A c \in DOMAIN cells :
       (hist' # hist /\ hist'[Len(hist')].a \in {"AppId", "AppDot", "AppQual", "AppGroup", "AddRef"} /\ c \notin Reach(cells', hist'[Len(hist')].c)
          /\ hist'[Len(hist')].c \notin Reach(cells, c))
         => Tree(cells', c) = Tree(cells, c)]_vars
\* C09 / C20: what a File renders depends only on its own contents - an append to a statement that no body item of the File
\* reaches (a sibling clone of one of them, say) leaves every body item's tree unchanged
Sys_ContentsOnly ==
  [][\A f \in DOMAIN files :
       (hist' # hist /\ hist'[Len(hist')].a \in {"AppId", "AppDot", "AppQual", "AppGroup", "AddRef"}
          /\ hist'[Len(hist')].c \notin UNION {Reach(cells, b) : b \in BodyCells(f)})
         => \A b \in BodyCells(f) : Tree(cells', b) = Tree(cells, b)]_vars
=============================================================================
