SPECIFICATION TSpec
CONSTANTS
  MaxDepth = 2
  MaxKids = 2
  Names = {"block", "call"}
  TraceFile = "trace.ndjson"
  VFile = "viol.ndjson"
POSTCONDITION Accepted
CHECK_DEADLOCK FALSE
