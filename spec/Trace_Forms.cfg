SPECIFICATION TSpec
CONSTANTS
  MaxDepth = 2
  MaxKids = 2
  TraceFile = "trace.ndjson"
  VFile = "viol.ndjson"
POSTCONDITION Accepted
CHECK_DEADLOCK FALSE
