SPECIFICATION Spec
CONSTANTS
  Chunks = 1
INVARIANTS NoWriteBeforeFormat FailedRenderWritesNothing SaveLeavesTargetOnFailure WriterErrorReturned FsErrorReturned SuccessWritesExactlyOutput NilOnlyWhenFormatted OutcomeAgrees
CONSTRAINT Emit
CHECK_DEADLOCK FALSE
