------------------------------ MODULE JenGuess ------------------------------
(***************************************************************************)
(* guessAlias (file.go): the name jennifer invents for an import path      *)
(* nobody gave a hint for.  TLC cannot look inside strings, so a path is   *)
(* a sequence of code points; `lower` is the same path after               *)
(* unicode.ToLower rune by rune (supplied by the recorder: U+212A KELVIN   *)
(* SIGN lowers to an ASCII k, which then survives the [a-z0-9] filter).    *)
(* The result consists of [a-z0-9] only, so it can be turned back into a   *)
(* TLA+ string with a 36-entry table and fed to Jen!Reg.                   *)
(*   1. one trailing slash is dropped                                      *)
(*   2. everything up to the last slash is dropped                         *)
(*   3. lower-casing, 4. every rune outside [a-z0-9] is removed            *)
(*   5. leading digits are skipped, 6. "pkg" when nothing is left          *)
(***************************************************************************)
EXTENDS Integers, Sequences, FiniteSets, TLC

Slash == 47
IsDigit(c) == c >= 48 /\ c <= 57
IsLow(c)   == c >= 97 /\ c <= 122
Keep(c)    == IsDigit(c) \/ IsLow(c)

Chr == [c \in (48..57) \cup (97..122) |->
          CASE c = 48 -> "0" [] c = 49 -> "1" [] c = 50 -> "2" [] c = 51 -> "3" [] c = 52 -> "4"
            [] c = 53 -> "5" [] c = 54 -> "6" [] c = 55 -> "7" [] c = 56 -> "8" [] c = 57 -> "9"
            [] c = 97 -> "a" [] c = 98 -> "b" [] c = 99 -> "c" [] c = 100 -> "d" [] c = 101 -> "e"
            [] c = 102 -> "f" [] c = 103 -> "g" [] c = 104 -> "h" [] c = 105 -> "i" [] c = 106 -> "j"
            [] c = 107 -> "k" [] c = 108 -> "l" [] c = 109 -> "m" [] c = 110 -> "n" [] c = 111 -> "o"
            [] c = 112 -> "p" [] c = 113 -> "q" [] c = 114 -> "r" [] c = 115 -> "s" [] c = 116 -> "t"
            [] c = 117 -> "u" [] c = 118 -> "v" [] c = 119 -> "w" [] c = 120 -> "x" [] c = 121 -> "y"
            [] c = 122 -> "z"]

\* steps 1-2 work on the ORIGINAL path (the positions of "/" are the same in `lower`: ToLower maps "/" to itself
\* and nothing else to "/")
DropTrail(cs)  == IF Len(cs) > 0 /\ cs[Len(cs)] = Slash THEN SubSeq(cs, 1, Len(cs) - 1) ELSE cs
LastSlash(cs)  == LET S == {i \in DOMAIN cs : cs[i] = Slash} IN IF S = {} THEN 0 ELSE CHOOSE i \in S : \A j \in S : j <= i
LastElem(cs)   == LET d == DropTrail(cs) IN SubSeq(d, LastSlash(d) + 1, Len(d))
Filter(cs)     == SelectSeq(cs, Keep)
RECURSIVE SkipDigits(_)
SkipDigits(cs) == IF cs # <<>> /\ IsDigit(Head(cs)) THEN SkipDigits(Tail(cs)) ELSE cs
GuessCodes(lower) == LET r == SkipDigits(Filter(LastElem(lower))) IN IF r = <<>> THEN <<112, 107, 103>> ELSE r
RECURSIVE Str(_)
Str(cs) == IF cs = <<>> THEN "" ELSE Chr[Head(cs)] \o Str(Tail(cs))
Guess(lower) == Str(GuessCodes(lower))

=============================================================================
