SPECIFICATION Spec
INVARIANT Holds
CHECK_DEADLOCK FALSE
