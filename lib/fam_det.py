"""C07 determinism: Dict universe under repeated builds (MC_Render dicts, all first-pass permutations on the model)
plus map-rich File recipes rebuilt repeatedly in several processes."""
import json, os
import fam_render
from vf import Machinery


def check(run, args):
    thorough = run.tier == "thorough"
    run.build_harness()
    # (A)+(B)+(C) on the Dict universe: the model checks all permutations of the first pass; the real library is
    # rebuilt `repeats` times per case and the hook counts the distinct iteration orders actually taken
    files = [fam_render.gen_cases(run, "dicts", dict(MaxArity=3 if thorough else 2))]
    outer = run.defer          # (this family is also run as one of several: the caller then collects the violations)
    run.defer = True
    fam_render.execute(run, files, repeats=128 if thorough else 32)
    # whole-file recipes in several processes
    procs = 4 if thorough else 2
    n = 1500 if thorough else 150
    repeats = 24 if thorough else 12
    per = []
    for k in range(procs):
        out = os.path.join(run.scratch, "det%d.ndjson" % k)
        stats = os.path.join(run.scratch, "detstats%d.json" % k)
        run.harness_run(["det", out, stats, str(n), str(repeats)])
        per.append({json.loads(l)["id"]: json.loads(l) for l in open(out)})
        os.remove(out)
        st = json.load(open(stats))
    trace = os.path.join(run.scratch, "dettrace.ndjson")
    with open(trace, "w") as f:
        for i in sorted(per[0]):
            hashes = [p[i]["hash"] for p in per if i in p]
            f.write(json.dumps(dict(ev="det", id=i, nhash=max(p[i]["nhash"] for p in per if i in p), hashes=hashes)) + "\n")
    recs = run.validate_trace("Trace_Render.tla", "Trace_Render.cfg", trace_path=trace)
    os.remove(os.path.join(run.tla_dir(), "trace%d.ndjson" % (len(run.tlc_runs) - 1)))
    viols = [dict(prop="C07", key=r["key"], family="det", recipe=r["trace"], seed=run.seed,
                  note="regenerate with: harness det (DetDriver, same VERIF_SEED)") for r in recs if r["prop"] == "C07"]
    run.traces += len(per[0])
    run.evals += len(per[0]) * repeats * procs
    run.distinct += st["stats"].get("recipes", 0)
    run.rule += ("; map-rich File recipes (ImportNames maps, 2-16 imports with colliding names, Dicts of 2-12 pairs, Tags of 2-6 keys, Anon sets), "
                 "each rebuilt from fresh objects %d times in each of %d processes (fresh hash seeds); distinct = distinct recipes" % (repeats, procs))
    run.cov.setdefault("harness_stats", []).append(st["stats"])
    run.assumptions += ["Go's map iteration order cannot be forced: orders are sampled (counted through the dictkey hook); the model covers all permutations",
                        "generators stay away from the trigger classes of the known findings F7 / F6b, which are exercised separately by the Dict universe"]
    run.defer = outer
    return run.finish(run.pending + viols)


def replay(run, path):
    raise Machinery("re-run bin/check C07 with the same VERIF_SEED; the case is stored in " + path)
