"""Literal family: C11 (numbers), C12 (strings, runes, bytes), C17 (tags). Spec: JenLit.tla, Trace_Lit.tla."""
import json, os
from vf import Machinery

CMD = {
    "C11": lambda th: ["lits-num", None, None, "300000" if th else "8000"],
    "C12": lambda th: ["lits-str", None, None, "2000000" if th else "60000", "1" if th else "0"],
    "C17": lambda th: ["lits-tag", None, None, "400000" if th else "30000"],
}


def check(run, args):
    thorough = run.tier == "thorough"
    run.build_harness()
    run.tlc("JenLit.tla", "Lit.cfg", workers=1)          # (A): the form / quoting rules over all class sequences
    trace = os.path.join(run.scratch, "trace.ndjson")
    stats = os.path.join(run.scratch, "stats.json")
    cmd = CMD[run.prop](thorough)
    cmd[1], cmd[2] = trace, stats
    run.harness_run(cmd, timeout=7200)
    st = json.load(open(stats))
    events = [json.loads(l) for l in open(trace)]
    recs = run.validate_trace("Trace_Lit.tla", "Trace_Lit.cfg", trace_path=trace)
    os.remove(os.path.join(run.tla_dir(), "trace%d.ndjson" % (len(run.tlc_runs) - 1)))
    mine = [r for r in recs if r["prop"] == run.prop]
    run.drift += sum(1 for r in recs if r["prop"] == "DRIFT")
    firsts = {}
    for r in mine:
        firsts.setdefault(r["key"], r)
    viols = [dict(prop=run.prop, key=r["key"], family="lit", event=events[r["line"] - 1]) for r in firsts.values()]
    run.traces += st["stats"].get("traces", 0)
    run.evals += st["stats"].get("traces", 0)
    run.distinct += st["stats"].get("nontrivial", 0)
    run.rule += ("values / strings / code points / maps enumerated or sampled as stated in the property; observations are aggregated by signature "
                 "(type, shape, form, evaluated type, value equality, token framing): one TLC-validated event per distinct signature; "
                 "traces_validated_against_impl counts the individual values; distinct_nontrivial = values other than the trivial zero cases")
    run.samples += (st.get("samples") or [])
    run.cov.setdefault("harness_stats", []).append(st["stats"])
    run.cov["signatures"] = len(events)
    run.assumptions += ["numeric equality, unquoting and struct-tag parsing are decided by go/types.Eval + go/constant, strconv and reflect (trusted projections); "
                        "the TLA+ specification decides form, type and the class-level interaction of the quoting layers"]
    return run.finish(viols)


def replay(run, path):
    raise Machinery("re-run bin/check %s; the failing signature and an example value are stored in %s" % (run.prop, path))
