"""Heap family: C20 (spec: JenHeap.tla, Trace_Heap.tla)."""
import json, os, shutil
from vf import Machinery


def check(run, args):
    thorough = run.tier == "thorough"
    run.build_harness()
    d = run.tla_dir()
    run.tlc("JenHeap.tla", "Heap.cfg", overrides=dict(MaxOps=6, MaxCells=4) if thorough else None, timeout=3000)
    hf = os.path.join(run.scratch, "heap_hists.ndjson")
    shutil.move(os.path.join(d, "heap.ndjson"), hf)
    if thorough:
        with open(os.path.join(d, "Heap.cfg")) as f, open(os.path.join(d, "neg_Heap.cfg"), "w") as g:
            g.write("".join(l for l in f if not l.startswith("CONSTRAINT Emit")))
        run.tlc("JenHeap.tla", "neg_Heap.cfg", overrides=dict(HeaderCopy="TRUE", MaxOps=6), expect_violation=True)
    trace = os.path.join(run.scratch, "trace.ndjson")
    stats = os.path.join(run.scratch, "stats.json")
    run.harness_run(["heap", trace, stats, hf, "--random", "20000" if thorough else "2000"])
    os.remove(hf)
    st = json.load(open(stats))
    recs = run.validate_trace("Trace_Heap.tla", "Trace_Heap.cfg", trace_path=trace)
    tpath = os.path.join(d, "trace%d.ndjson" % (len(run.tlc_runs) - 1))
    mine = [r for r in recs if r["prop"] in (run.prop, "CRASH")]
    run.drift += sum(1 for r in recs if r["prop"] == "DRIFT")
    firsts = {}
    for r in mine:
        firsts.setdefault(r["key"], r)
    wanted = {r["trace"] for r in firsts.values()}
    slices, cur = {}, None
    if wanted:
        for line in open(tpath):
            e = json.loads(line)
            if e["op"] == "Reset":
                cur = e["trace"]
                continue
            if cur in wanted:
                slices.setdefault(cur, []).append(e)
    os.remove(tpath)
    viols = [dict(prop=run.prop, key=r["key"], family="heap", trace=r["trace"], line=r["line"],
                  ops=[dict(op=e["op"], c=e["c"], k=e["k"]) for e in slices.get(r["trace"], [])],
                  observed=slices.get(r["trace"], [])[-1:] ) for r in firsts.values()]
    run.traces += st["stats"].get("traces", 0)
    run.evals += st["stats"].get("events", 0)
    run.distinct += st["stats"].get("histories_with_4plus_ops", 0)
    run.rule += ("histories = every behaviour of JenHeap within the bounds that ends in an append or clone (exported by TLC) plus seeded "
                "random histories with longer appends; after every operation every live statement is rendered; non-trivial = distinct histories with >= 4 operations")
    run.samples += (st.get("samples") or [])
    run.cov.setdefault("harness_stats", []).append(st["stats"])
    run.assumptions += ["a statement's token list is read from a NoFormat render of a File that contains only that statement"]
    return run.finish(viols)


def replay(run, path):
    v = json.load(open(path))
    hf = os.path.join(run.scratch, "h.ndjson")
    open(hf, "w").write(json.dumps(v["ops"]) + "\n")
    run.build_harness()
    trace = os.path.join(run.scratch, "trace.ndjson")
    stats = os.path.join(run.scratch, "stats.json")
    run.harness_run(["heap", trace, stats, hf])
    recs = run.validate_trace("Trace_Heap.tla", "Trace_Heap.cfg", trace_path=trace)
    mine = [r for r in recs if r["prop"] in (run.prop, "CRASH")]
    run.traces, run.evals, run.distinct = 1, len(v["ops"]), 2
    return run.finish([dict(prop=run.prop, key=r["key"], ops=v["ops"]) for r in mine])
