"""C01 faithful rendering: (A) GoMini.tla (documented translation of a mini-AST renders to the program's token stream),
(B/C) the go/ast -> recipe translator over the vendored corpus and GOROOT/src, executed as File histories and validated by Trace_Imports."""
import json, os, shutil
import fam_render
from vf import Machinery, CORES


def check(run, args):
    thorough = run.tier == "thorough"
    run.build_harness()
    d = run.tla_dir()
    outer = run.defer          # (this family is also run as one of several: the caller then collects the violations)
    run.defer = True
    # (A) + replay of every mini-AST case on the real library
    run.tlc("GoMini.tla", "GoMini.cfg", workers=8)
    cf = os.path.join(run.scratch, "gomini_cases.ndjson")
    shutil.move(os.path.join(d, "gomini.ndjson"), cf)
    fam_render.execute(run, [cf])
    # corpus: vendored files always, GOROOT/src sampled (quick) or complete (thorough, sharded)
    shards = 16 if thorough else 4
    sample = 0 if thorough else 240
    every = 12 if thorough else 3          # every k-th file travels with its trees and is compared with the model
    import subprocess, concurrent.futures
    exe = run.build_harness()
    env = run.goenv()
    env["VERIF_SEED"] = str(run.seed)
    from vf import load_findings
    env["VERIF_CORPUS_ALWAYS"] = ",".join(k["key"][4:] for k in load_findings()[0] if k["prop"] == "C01" and k["key"].startswith("F12:"))
    def one(i):
        t = os.path.join(run.scratch, "corpus%d.ndjson" % i)
        s = os.path.join(run.scratch, "corpus%d.json" % i)
        r = subprocess.run([exe, "corpus", t, s, os.path.join(os.path.dirname(os.path.dirname(os.path.abspath(__file__))), "corpus"),
                            str(sample), str(i), str(shards), str(every)], env=env, capture_output=True, text=True, timeout=7200)
        if r.returncode != 0:
            raise Machinery("corpus shard %d failed:\n%s" % (i, r.stderr[-2000:]))
        return t, s
    with concurrent.futures.ThreadPoolExecutor(max_workers=min(shards, CORES)) as ex:
        outs = list(ex.map(one, range(shards)))
    import fam_imports
    stats_total = {}
    viols_before = len(run.pending)
    for t, s in outs:
        st = json.load(open(s))
        for k, v in st["stats"].items():
            stats_total[k] = stats_total.get(k, 0) + v
        if os.path.getsize(t) == 0:
            os.remove(t)
            continue
        fam_imports.validate(run, t, st)
    run.cov["corpus"] = stats_total
    run.defer = outer
    # known finding F12 is keyed per file: "F12:<file>"
    run.assumptions += ["AST comparison ignores positions, comments, ParenExpr, empty statements and the grouping of import declarations; literals are compared by go/constant value",
                        "files with dot-imports are skipped and counted (attribution of bare identifiers needs type information)",
                        "imports the source declares but never references are not expected in the output"]
    run.rule = ("mini-ASTs of GoMini.tla (every statement / expression production within the bounds) + source files translated declaration by declaration; "
                "distinct_nontrivial counts distinct mini-AST token streams + distinct translated files; " + run.rule)[:1500]
    run.distinct += stats_total.get("files_translated", 0)
    return run.finish(run.pending)


def replay(run, path):
    raise Machinery("re-run bin/check C01; the failing file is named in " + path)
