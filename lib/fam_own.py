"""Own-test traces (spec: Trace_Register.tla, JenGuess.tla): the repository's own tests of package jen are run with
the hooks on; every File.register call they make is validated as one transition of Jen!Reg, and the table-level
monitors of C05 / C06 / C08 are evaluated on every recorded table."""
import json, os, subprocess
import vf
from vf import Machinery


def check(run, args):
    run.build_harness()
    ev = os.path.join(run.scratch, "own_events.ndjson")
    e = run.goenv()
    e["VERIF_TRACE_FILE"] = ev
    r = subprocess.run(["go", "test", "-tags", "verif", "-vet=off", "-count=1", "./jen"], cwd=vf.REPO, env=e,
                       capture_output=True, text=True, timeout=1800)
    if r.returncode != 0 or not os.path.exists(ev):
        # the repository's tests failing with the hooks on is not a verdict on this property
        raise Machinery("the repository's own tests did not pass with -tags verif:\n" + (r.stdout + r.stderr)[-3000:])
    trace = os.path.join(run.scratch, "own_trace.ndjson")
    stats = os.path.join(run.scratch, "own_stats.json")
    run.harness_run(["ownpost", ev, trace, stats])
    st = json.load(open(stats))
    recs = run.validate_trace("Trace_Register.tla", "Trace_Register.cfg", trace_path=trace)
    tpath = os.path.join(run.tla_dir(), "trace%d.ndjson" % (len(run.tlc_runs) - 1))
    lines = open(tpath).read().splitlines()
    os.remove(tpath)
    run.drift += sum(1 for x in recs if x["prop"] == "DRIFT")
    viols, seen = [], set()
    for x in recs:
        if x["prop"] != run.prop or x["key"] in seen:
            continue
        seen.add(x["key"])
        viols.append(dict(prop=run.prop, key="own tests: " + x["key"], family="own", file=x["trace"],
                          events=[json.loads(s) for s in lines if json.loads(s)["file"] == x["trace"]][:40]))
    run.traces += st["stats"].get("traces", 0)
    run.evals += st["stats"].get("events", 0)
    run.distinct += st["stats"].get("registered_paths", 0)
    run.rule += "; own tests: one trace per File of the repository's test suite, distinct_nontrivial += distinct registered paths"
    run.cov.setdefault("harness_stats", []).append(dict(own_tests=st["stats"]))
    run.assumptions += ["own-test traces: Anon has no hook and is composed silently (it may overwrite table entries with ('_', alias))"]
    return run.finish(viols)


def replay(run, path):
    raise Machinery("re-run the check; the File's events are stored in " + path)
