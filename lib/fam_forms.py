"""C14: forms of constructs and callback timing (spec: JenForms.tla, Trace_Forms.tla)."""
import json, os, shutil
from vf import Machinery


def check(run, args):
    thorough = run.tier == "thorough"
    run.build_harness()
    d = run.tla_dir()
    run.tlc("JenForms.tla", "Forms.cfg", overrides=dict(Names='{"block", "call", "values", "params", "do"}') if thorough else None, workers=4, timeout=3000)
    tf = os.path.join(run.scratch, "forms.ndjson")
    shutil.move(os.path.join(d, "forms.ndjson"), tf)
    run.tlc("ExportTable.tla", "ExportTable.cfg", workers=1, count=False)
    trace = os.path.join(run.scratch, "trace.ndjson")
    stats = os.path.join(run.scratch, "stats.json")
    run.harness_run(["forms", trace, stats, os.path.join(d, "table.json"), tf])
    os.remove(tf)
    st = json.load(open(stats))
    events = [json.loads(l) for l in open(trace)]
    recs = run.validate_trace("Trace_Forms.tla", "Trace_Forms.cfg", trace_path=trace,
                              overrides=dict(Names='{"block", "call", "values", "params", "do"}') if thorough else None)
    os.remove(os.path.join(d, "trace%d.ndjson" % (len(run.tlc_runs) - 1)))
    mine = [r for r in recs if r["prop"] in (run.prop, "CRASH")]
    firsts = {}
    for r in mine:
        firsts.setdefault(r["key"], r)
    viols = [dict(prop=run.prop, key=r["key"], family="forms", event=events[r["line"] - 1]) for r in firsts.values()]
    run.traces += st["stats"].get("traces", 0)
    run.evals += st["stats"].get("events", 0)
    run.distinct += st["stats"].get("constructs", 0) + st["stats"].get("trees", 0)
    run.rule += ("every exported construct of the package under test (package functions from its source, methods by reflection) x 5 builds "
                 "(function, Statement method, Group method, Group method + append to the returned statement, function + append) with synthesised "
                 "arguments; every Func variant against its plain form; every tree of JenForms (depth <= 2, <= 2 children, 2-4 constructs, Func variant or not at every node); "
                 "distinct = constructs + trees")
    run.samples += (st.get("samples") or [])
    run.exhaustive = True
    run.cov.setdefault("harness_stats", []).append(st["stats"])
    run.assumptions += ["arguments are synthesised by parameter type; constructs whose arguments cannot be synthesised are reported in the evidence, not as violations"]
    run.cov["unsynthesisable"] = [e["name"] for e in events if e.get("ev") == "form" and e.get("builderror") == "error cannot synthesise arguments"]
    return run.finish(viols)


def replay(run, path):
    raise Machinery("re-run bin/check C14; the failing construct / tree is stored in " + path)
