"""Import family: C03 C04 C05 C06 C08 C18 C19 (spec: Jen.tla, JenSys.tla, MC_Imports.tla, Trace_Imports.tla)."""
import json, os, shutil
from vf import Machinery, log

# per property: universes (spec/Imports_<u>.cfg) and Go-side drivers "name:count"
PROFILE = {
    "C02": dict(universes=[], drivers=[], compose=True),
    "C03": dict(universes=["collide", "history"], drivers=["mix:%d", "history:%d", "stdpairs:200", "paths:%d", "compete:%d", "cgo:%d", "dotlocal:%d", "scale:%d", "lateanon:%d"]),
    "C04": dict(universes=["nulls", "collide", "cgo"], drivers=["hints:%d", "nullrefs:%d", "cgo:%d", "dotlocal:%d", "scale:%d", "lateanon:%d"]),
    "C05": dict(universes=["collide", "reserved", "history"], drivers=["reserved:0", "paths:%d", "compete:%d", "cgo:%d", "history:%d", "scale:%d", "lateanon:%d"]),
    "C06": dict(universes=["dotlocal"], drivers=["dotlocal:%d", "scale:%d"]),
    "C08": dict(universes=["history"], drivers=["history:%d", "scale:%d", "cgo:%d"]),
    "C15": dict(universes=["filemeta"], drivers=["filecomments:%d"]),
    "C18": dict(universes=["collide"], drivers=["std:0", "stdpairs:0", "scale:%d", "lateanon:%d"]),
    "C19": dict(universes=["cgo"], drivers=["cgo:%d", "scale:%d"]),
}
NEGATIVE = {  # Legacy deviation -> universe in which TLC must find its counterexample (vacuity check)
    "C05": [("PrefixAfterUnique", "collide"), ("NoAnyComparable", "reserved")],
    "C06": [("PrefixOnDot", "dotlocal")],
    "C08": [("LateDot", "history")],
    "C19": [('CDot", "LateDot', "cgo")],   # the pinned-tree shape of isDotImport: hints only, "C" not exempt
}


def strip_emit(run, cfg):
    d = run.tla_dir()
    name = "mc_" + cfg
    with open(os.path.join(d, cfg)) as f, open(os.path.join(d, name), "w") as g:
        g.write("".join(l for l in f if not l.startswith("CONSTRAINT Emit")))
    return name


def check(run, args):
    prop, tier = run.prop, run.tier
    prof = PROFILE[prop]
    thorough = tier == "thorough"
    n = 20000 if thorough else 1500
    run.build_harness()
    d = run.tla_dir()
    hist_files = []
    if prop == "C05":
        # (A) JenGuess: over every class sequence up to the bound the guessed alias is a legal identifier spelling
        run.tlc("MC_Guess.tla", "Guess.cfg", overrides={"MaxLen": 8} if thorough else None)
        if thorough:
            # (A) for unbounded histories: the invariant (names unique and legal) is INDUCTIVE - from every table over the
            # universe that satisfies it (reachable or not), under every hint and prefix, one more register keeps it;
            # with the pinned tree's deviation switched on the induction step must fail (vacuity control)
            run.tlc("MC_RegInd.tla", "RegInd.cfg", timeout=3000, xmx="12g")
            run.tlc("MC_RegInd.tla", "RegInd.cfg", overrides={"Legacy": '{"PrefixAfterUnique"}', "IPaths": '{"x/d", "y/d"}'}, expect_violation=True)
    for u in prof["universes"]:
        cfg = "Imports_%s.cfg" % u
        # (A)+(export): exhaustive model check of the universe; one history per explored observation
        rec = run.tlc("MC_Imports.tla", cfg, overrides={"MaxOps": 5} if (thorough and u == "history") else None)
        hf = os.path.join(d, "hists_%s.ndjson" % u)
        src = os.path.join(d, "hists.ndjson")
        if not os.path.exists(src):
            raise Machinery("export produced no histories for " + u)
        shutil.move(src, hf)
        hist_files.append(hf)
        if thorough:
            # (A) deeper, without export
            run.tlc("MC_Imports.tla", strip_emit(run, cfg), overrides={"MaxOps": 5}, timeout=3000, xmx="10g")
    if thorough:
        for legacy, u in NEGATIVE.get(prop, []):
            run.tlc("MC_Imports.tla", strip_emit(run, "Imports_%s.cfg" % u), overrides={"Legacy": '{"%s"}' % legacy},
                    expect_violation=True)
    trace = os.path.join(run.scratch, "trace.ndjson")
    stats = os.path.join(run.scratch, "stats.json")
    cmd = ["imports", trace, stats]
    for hf in hist_files:
        cmd += ["--hists", hf]
    if prof.get("compose"):
        # (A) for C02 is the pipeline model: a nil result only after formatting succeeded, output = formatted bytes
        run.tlc("JenOutput.tla", "Output.cfg", workers=4)
        os.remove(os.path.join(d, "output_cases.ndjson"))
        run.tlc("ExportTable.tla", "ExportTable.cfg", workers=1, count=False)
        cmd += ["--compose", os.path.join(d, "table.json"), str(60000 if thorough else 4000)]
    for drv in prof["drivers"]:
        cmd += ["--driver", drv % n if "%d" in drv else drv]
    run.harness_run(cmd)
    st = json.load(open(stats))
    for hf in hist_files:
        os.remove(hf)
    return validate(run, trace, st)


def validate(run, trace, st):
    prop = run.prop
    # index the trace by trace id before TLC consumes it (for replay files)
    recs = run.validate_trace("Trace_Imports.tla", "Trace_Imports.cfg", trace_path=trace)
    tpath = os.path.join(run.tla_dir(), "trace%d.ndjson" % (len(run.tlc_runs) - 1))
    mine = [r for r in recs if r["prop"] == prop]
    run.drift += sum(1 for r in recs if r["prop"] == "DRIFT")
    others = sorted({r["prop"] for r in recs if r["prop"] not in (prop, "DRIFT")})
    firsts = {}
    for r in mine:
        firsts.setdefault(r["key"], r)
    mine = list(firsts.values()) + [r for r in mine if firsts[r["key"]] is not r]
    wanted = {r["trace"] for r in list(firsts.values())[:50]}
    slices = {}
    if wanted and os.path.exists(tpath):
        cur = None
        for line in open(tpath):
            e = json.loads(line)
            if e.get("ev") == "New":
                cur = e["trace"]
            if cur in wanted:
                slices.setdefault(cur, []).append(e)
    if os.path.exists(tpath):
        os.remove(tpath)
    viols = []
    for r in mine:
        viols.append(dict(prop=prop, key=r["key"], family="imports", trace=r["trace"], line=r["line"],
                          history=to_history(slices.get(r["trace"], []))))
    run.traces += st["stats"].get("traces", 0)
    run.evals += st["stats"].get("events", 0)
    run.distinct += st["stats"].get("renders_with_2plus_imports", 0)
    run.rule += ("histories = every observation-terminated behaviour of the TLC universes (exported, one per explored state) "
                "plus seeded Go drivers; distinct_nontrivial = distinct raw outputs of renders whose import block has >= 2 specs")
    run.samples += (st.get("samples") or [])
    run.cov["other_properties_flagged_in_same_traces"] = others
    run.cov.setdefault("harness_stats", []).append(st["stats"])
    run.assumptions += [
        "import specs / references are read from the output token stream with go/scanner; doc comments with go/parser",
        "standard-library names = package clauses parsed from GOROOT/src; an ImportName claim is taken as the package's real name",
        "domain: no false ImportName claim about a std package, one claim per path, no Anon of the local path, hint names are identifiers or '.'",
    ]
    return run.finish(viols)


def to_history(events):
    h = []
    for e in events:
        ev = e.get("ev")
        if ev == "New":
            h.append(dict(a="New", local=e["local"], prefix=e["prefix"], name=e.get("pkgname", "main"),
                          preamble=[c["v"] for c in e.get("preamble", [])],
                          headers=[c["v"] for c in e.get("headers", [])], comments=[c["v"] for c in e.get("comments", [])],
                          canonical=e.get("canonical", "")))
        elif ev in ("ImportName", "ImportAlias"):
            h.append(dict(a=ev, p=e["p"], n=e["n"]))
        elif ev == "Anon":
            h.append(dict(a="Anon", p=e["p"]))
        elif ev == "Preamble":
            h.append(dict(a="Preamble", n=e["node"]["v"]))
        elif ev in ("Add", "Frag"):
            h.append(dict(a=ev, tree=e["tree"]))
        elif ev == "Render":
            h.append(dict(a="Render"))
    return h


def replay(run, path):
    v = json.load(open(path))
    hf = os.path.join(run.scratch, "replay_hist.ndjson")
    with open(hf, "w") as f:
        f.write(json.dumps(v["history"]) + "\n")
    trace = os.path.join(run.scratch, "trace.ndjson")
    stats = os.path.join(run.scratch, "stats.json")
    run.build_harness()
    run.harness_run(["imports", trace, stats, "--hists", hf])
    return validate(run, trace, json.load(open(stats)))
