"""C09: Files do not interfere (spec: JenConc.tla, Trace_Conc.tla)."""
import json, os, shutil, subprocess
from vf import Machinery


def check(run, args):
    thorough = run.tier == "thorough"
    run.build_harness()
    d = run.tla_dir()
    traces = []
    stats_all = []
    # (i) all interleavings of register steps, replayed through the hook gate
    for jobs, refs in ([("{1, 2}", 3), ("{1, 2, 3}", 1)] + ([("{1, 2, 3}", 2)] if thorough else [])):
        run.tlc("JenConc.tla", "Conc.cfg", overrides=dict(Jobs=jobs, NRefs=refs), workers=8)
        sf = os.path.join(run.scratch, "sched_%d.ndjson" % len(run.tlc_runs))
        shutil.move(os.path.join(d, "schedules.ndjson"), sf)
        t = os.path.join(run.scratch, "t_sched%d.ndjson" % len(traces))
        st = os.path.join(run.scratch, "s_sched%d.json" % len(traces))
        run.harness_run(["conc-sched", t, st, str(refs), sf])
        os.remove(sf)
        traces.append(t)
        stats_all.append(json.load(open(st)))
    if thorough:
        with open(os.path.join(d, "Conc.cfg")) as f, open(os.path.join(d, "neg_Conc.cfg"), "w") as g:
            g.write("".join(l for l in f if not l.startswith("CONSTRAINT Emit")))
        run.tlc("JenConc.tla", "neg_Conc.cfg", overrides=dict(SharedCounter="TRUE"), expect_violation=True)
    # (ii) every order of rendering Files that share statements
    t = os.path.join(run.scratch, "t_orders.ndjson")
    st = os.path.join(run.scratch, "s_orders.json")
    run.harness_run(["conc-orders", t, st, "60" if thorough else "8"])
    traces.append(t)
    stats_all.append(json.load(open(st)))
    # (iii) free-running goroutines, race detector on (no gate: a gate would create happens-before edges)
    run.tlc("ExportTable.tla", "ExportTable.cfg", workers=1, count=False)
    t = os.path.join(run.scratch, "t_free.ndjson")
    st = os.path.join(run.scratch, "s_free.json")
    r = run.harness_run(["conc-free", t, st, os.path.join(d, "table.json"), "32", "40" if thorough else "6"],
                        race=True, ok_codes=(0, 66, 2), env={"GORACE": "halt_on_error=0 exitcode=66"})
    # unsynchronised map access by two goroutines is detected by the Go runtime itself and kills the process (exit 2):
    # that IS a data race between goroutines that share no Code value, observed on the real library
    killed = r.returncode == 2 and ("fatal error: concurrent map" in r.stderr)
    if r.returncode == 2 and not killed:
        raise Machinery("harness conc-free failed (2):\n" + r.stderr[-3000:])
    raced = r.returncode == 66 or "DATA RACE" in r.stderr or killed
    if killed:
        open(t, "w").close()
        json.dump(dict(stats=dict(traces=0, events=0, process_killed_by_concurrent_map_access=1), samples=[]), open(st, "w"))
    if not os.path.exists(t):
        raise Machinery("race run produced no trace:\n" + r.stderr[-2000:])
    traces.append(t)
    stats_all.append(json.load(open(st)))
    merged = os.path.join(run.scratch, "trace.ndjson")
    with open(merged, "w") as out:
        for t in traces:
            with open(t) as f:
                shutil.copyfileobj(f, out)
            os.remove(t)
        out.write(json.dumps(dict(ev="race", id=0, found=bool(raced))) + "\n")
    recs = run.validate_trace("Trace_Conc.tla", "Trace_Conc.cfg", trace_path=merged)
    tpath = os.path.join(d, "trace%d.ndjson" % (len(run.tlc_runs) - 1))
    mine = [r for r in recs if r["prop"] == run.prop]
    run.drift += sum(1 for r in recs if r["prop"] == "DRIFT")
    firsts = {}
    for r_ in mine:
        firsts.setdefault(r_["key"], r_)
    wanted = {r_["line"] for r_ in firsts.values()}
    events = {}
    for n, line in enumerate(open(tpath), 1):
        if n in wanted:
            events[n] = json.loads(line)
    os.remove(tpath)
    viols = [dict(prop=run.prop, key=r_["key"], family="conc", event=events.get(r_["line"]),
                  race_report=(r.stderr[-3000:] if raced else "")) for r_ in firsts.values()]
    for s in stats_all:
        run.traces += s["stats"].get("traces", 0)
        run.evals += s["stats"].get("events", 0)
        run.distinct += s["stats"].get("schedules", 0) + s["stats"].get("orders", 0) + s["stats"].get("jobs", 0)
        run.samples += (s.get("samples") or [])
        run.cov.setdefault("harness_stats", []).append(s["stats"])
    run.rule += ("all interleavings of register steps of 2 jobs x 3 references and 3 jobs x 1 reference (TLC, exhaustive) replayed with the hook gate; "
                 "all orders of rendering 3-4 Files sharing statements; free-running goroutines on a -race build; "
                 "distinct = distinct schedules + orders + concurrent jobs")
    run.cov["race_detector_reported"] = bool(raced)
    run.assumptions += ["data-race freedom is observed by Go's race detector on free-running jobs; TLA+ contributes the schedules and the no-shared-state model"]
    return run.finish(viols)


def replay(run, path):
    raise Machinery("re-run bin/check C09; the failing schedule / order is stored in " + path)
