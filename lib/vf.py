"""Shared plumbing of the /verif checks: scratch directories, harness build, TLC runs,
violation / known-finding handling, evidence files.

Exit codes of a check: 0 = property held on everything explored (KNOWN-FINDING / DRIFT lines
allowed), 1 = VIOLATION line printed, 2 = machinery failure (never a verdict on jennifer)."""
import atexit, hashlib, json, os, re, shutil, subprocess, sys, tempfile, time

VERIF = os.path.dirname(os.path.dirname(os.path.abspath(__file__)))
REPO = os.environ.get("VERIF_REPO", "/repo")
JAR = "/opt/veriftools/tla/tla2tools.jar"
CORES = os.cpu_count() or 4


class Machinery(Exception):
    """Something in the machinery failed; says nothing about jennifer."""


def log(*a):
    print(*a, file=sys.stderr, flush=True)


class Run:
    def __init__(self, prop, tier, seed):
        self.prop, self.tier, self.seed = prop, tier, seed
        self.t0 = time.time()
        base = os.environ.get("VERIF_SCRATCH") or tempfile.gettempdir()
        self.scratch = tempfile.mkdtemp(prefix="verif-%s-" % prop, dir=base)
        if not os.environ.get("VERIF_KEEP"):
            atexit.register(shutil.rmtree, self.scratch, True)
        self.states = 0
        self.transitions = 0
        self.tlc_runs = []
        self.harness = None
        self.cov = {}          # extra coverage keys
        self.samples = []
        self.assumptions = []
        self.drift = 0
        self.traces = 0
        self.evals = 0
        self.distinct = 0
        self.rule = ""
        self.exhaustive = False
        self.defer = False
        self.pending = []

    # ---------------- environment ----------------
    def goenv(self):
        e = dict(os.environ)
        e.update(GOFLAGS="-mod=mod", GOPROXY="off", GOSUMDB="off", GOTOOLCHAIN="local")
        e.setdefault("GOCACHE", os.path.join(tempfile.gettempdir(), "verif-gocache"))
        return e

    def build_harness(self, race=False):
        """Builds the harness against REPO's current working tree with hooks on."""
        tag = "race" if race else "plain"
        out = os.path.join(self.scratch, "harness-" + tag)
        if os.path.exists(out):
            return out
        h = os.path.join(self.scratch, "h")
        if not os.path.isdir(h):
            shutil.copytree(os.path.join(VERIF, "harness"), h, ignore=shutil.ignore_patterns("api_gen.go", "*.test"))
            with open(os.path.join(h, "go.mod"), "w") as f:
                f.write("module verifharness\n\ngo 1.20\n\nrequire github.com/dave/jennifer v0.0.0\n\n"
                        "replace github.com/dave/jennifer => %s\n" % REPO)
            gosum = os.path.join(REPO, "go.sum")
            if os.path.exists(gosum):
                shutil.copy(gosum, os.path.join(h, "go.sum"))
            r = subprocess.run(["go", "run", "./cmd/genapi", os.path.join(REPO, "jen"), os.path.join(h, "api_gen.go")],
                               cwd=h, env=self.goenv(), capture_output=True, text=True)
            if r.returncode != 0:
                raise Machinery("genapi failed:\n" + r.stdout + r.stderr)
        cmd = ["go", "build", "-tags", "verif"] + (["-race"] if race else []) + ["-o", out, "."]
        r = subprocess.run(cmd, cwd=h, env=self.goenv(), capture_output=True, text=True)
        if r.returncode != 0:
            raise Machinery("harness build failed (does %s compile with -tags verif?):\n%s%s" % (REPO, r.stdout, r.stderr))
        if not race:
            self.harness = out
        return out

    def harness_run(self, args, race=False, env=None, timeout=3600, ok_codes=(0,)):
        exe = self.build_harness(race)
        e = self.goenv()
        e["VERIF_SEED"] = str(self.seed)
        if env:
            e.update(env)
        r = subprocess.run([exe] + args, cwd=self.scratch, env=e, capture_output=True, text=True, timeout=timeout)
        if r.returncode not in ok_codes:
            raise Machinery("harness %s failed (%d):\n%s\n%s" % (args[:1], r.returncode, r.stdout[-3000:], r.stderr[-3000:]))
        return r

    # ---------------- TLC ----------------
    def tla_dir(self):
        d = os.path.join(self.scratch, "tla")
        if not os.path.isdir(d):
            shutil.copytree(os.path.join(VERIF, "spec"), d)
        return d

    def tlc(self, module, cfg, overrides=None, workers=None, timeout=1800, simulate=None, extra=None,
            expect_violation=False, xmx="6g", count=True):
        """Runs TLC on spec/<module> with spec/<cfg> (constants optionally overridden).
        Returns dict(ok, states, distinct, out). Raises Machinery unless TLC finished cleanly."""
        d = self.tla_dir()
        cfgtext = open(os.path.join(d, cfg)).read()
        for k, v in (overrides or {}).items():
            cfgtext, n = re.subn(r"(?m)^(\s*%s\s*(?:=|<-)\s*).*$" % re.escape(k), lambda m: m.group(1) + str(v), cfgtext)
            if n != 1:
                raise Machinery("cfg override %s not applicable in %s" % (k, cfg))
        name = "run%d_%s" % (len(self.tlc_runs), cfg)
        with open(os.path.join(d, name), "w") as f:
            f.write(cfgtext)
        meta = os.path.join(self.scratch, "meta%d" % len(self.tlc_runs))
        jtmp = os.path.join(self.scratch, "jtmp")      # TLC unpacks its standard modules into java.io.tmpdir: keep that inside the scratch
        os.makedirs(jtmp, exist_ok=True)
        cmd = ["java", "-Xss512m", "-Xmx" + xmx, "-XX:+UseParallelGC", "-Djava.io.tmpdir=" + jtmp, "-cp", JAR, "tlc2.TLC",
               "-metadir", meta, "-config", name, "-workers", str(workers or CORES), "-seed", str(self.seed)]
        if simulate:
            cmd += ["-simulate", simulate]
        cmd += (extra or []) + [module]
        t0 = time.time()
        first_tail = None
        before = set(os.listdir(d))
        for attempt in (1, 2):
            try:
                r = subprocess.run(cmd, cwd=d, capture_output=True, text=True, timeout=timeout)
            except subprocess.TimeoutExpired:
                raise Machinery("TLC timed out on %s/%s after %ds" % (module, cfg, timeout))
            finally:
                shutil.rmtree(meta, True)
            out = r.stdout + r.stderr
            m = re.search(r"(\d+) states generated, (\d+) distinct states found", out)
            gen, dist = (int(m.group(1)), int(m.group(2))) if m else (0, 0)
            clean = "Model checking completed. No error has been found." in out or (simulate and "Finished in" in out and "Error:" not in out)
            violated = "is violated" in out
            if clean or violated or expect_violation or attempt == 2:
                break
            # a JVM that died (memory pressure while many checks run side by side) says nothing about the model: one retry,
            # recorded in the evidence; a real evaluation error fails the same way again and is reported
            first_tail = out[-1500:]
            for fn in set(os.listdir(d)) - before:      # what the dead run had exported so far
                try:
                    os.remove(os.path.join(d, fn))
                except OSError:
                    pass
        rec = dict(module=module, cfg=cfg, overrides=overrides or {}, generated=gen, distinct=dist,
                   wall_s=round(time.time() - t0, 1), clean=bool(clean), violated=violated)
        if first_tail is not None:
            rec["retried_after"] = first_tail
        self.tlc_runs.append(rec)
        if expect_violation:
            if not violated:
                raise Machinery("negative configuration %s/%s did not produce its counterexample" % (module, cfg))
        elif not clean:
            raise Machinery("TLC did not finish cleanly on %s/%s:\n%s" % (module, cfg, out[-4000:]))
        if count and not expect_violation:
            self.states += dist
            self.transitions += gen
        rec["out"] = out
        return rec

    def read_tlc_json_lines(self, path):
        """Lines written by CSVWrite("%1$s", <<ToJson(x)>>): JSON strings containing JSON."""
        out = []
        if not os.path.exists(path):
            return out
        with open(path) as f:
            for line in f:
                line = line.strip()
                if not line:
                    continue
                v = json.loads(line)
                if isinstance(v, str):
                    v = json.loads(v)
                out.append(v)
        return out

    def validate_trace(self, module, cfg, trace_path, overrides=None, timeout=3600):
        """Runs a trace spec over trace_path; returns the violation / drift records."""
        d = self.tla_dir()
        n = len(self.tlc_runs)
        tname, vname = "trace%d.ndjson" % n, "viol%d.ndjson" % n
        if os.path.abspath(trace_path) != os.path.join(d, tname):
            shutil.move(trace_path, os.path.join(d, tname))
        ov = dict(overrides or {})
        ov.update(TraceFile='"%s"' % tname, VFile='"%s"' % vname)
        # the whole trace is held in TLC's heap as one TLA+ value (roughly 5 bytes of heap per byte of ndjson)
        size = os.path.getsize(os.path.join(d, tname))
        xmx = "6g" if size < 300e6 else ("16g" if size < 1.2e9 else "28g")
        rec = self.tlc(module, cfg, overrides=ov, workers=1, timeout=max(timeout, 7200 if size > 300e6 else 0), count=False, xmx=xmx)
        return self.read_tlc_json_lines(os.path.join(d, vname))

    # ---------------- verdict ----------------
    def finish(self, violations, level="model_checking", extra_cov=None):
        """violations: list of dict(prop, key, replay(dict) ...) for THIS property only."""
        if self.defer:
            self.pending += [v for v in violations if not any(v is p for p in self.pending)]
            return 0
        known, fixed = load_findings()
        new, seen_known = [], {}
        for v in violations:
            k = match_known(known, self.prop, v.get("key", ""))
            if k:
                seen_known[k["key"]] = k
            else:
                new.append(v)
        for k in seen_known.values():
            print("KNOWN-FINDING: property=%s %s" % (self.prop, k["text"]), flush=True)
        replay_paths = []
        by_key = {}
        for v in new:
            by_key.setdefault(v.get("key", ""), v)
        for key, v in list(by_key.items())[:10]:
            rp = save_replay(self.prop, v)
            replay_paths.append(rp)
            print("VIOLATION property=%s replay=%s" % (self.prop, rp), flush=True)
            log("  key: %s" % key)
        cov = dict(states=self.states, transitions=self.transitions,
                   traces_validated_against_impl=self.traces,
                   evaluations=max(self.evals, 1), distinct_nontrivial=self.distinct, rule=self.rule,
                   samples=self.samples[:5] or ["(none)"], exhaustive=self.exhaustive,
                   drift_records=self.drift,
                   tlc_runs=[{k: r[k] for k in r if k != "out"} for r in self.tlc_runs],
                   known_findings_seen=sorted(seen_known), new_violation_keys=sorted(by_key)[:20])
        cov.update(self.cov)
        cov.update(extra_cov or {})
        ev = dict(property_id=self.prop, tier=self.tier, seed=self.seed, level=level, coverage=cov,
                  assumptions=self.assumptions, wall_s=round(time.time() - self.t0, 1), violations=len(by_key))
        evdir = os.environ.get("VERIF_EVIDENCE_DIR") or os.path.join(VERIF, "evidence")
        os.makedirs(evdir, exist_ok=True)
        with open(os.path.join(evdir, self.prop + ".json"), "w") as f:
            json.dump(ev, f, indent=1, sort_keys=True)
            f.write("\n")
        if self.drift:
            log("DRIFT: %d model/implementation disagreements without a property violation (see evidence)" % self.drift)
        return 1 if by_key else 0


def load_findings():
    known, fixed = [], []
    p = os.path.join(VERIF, "known-findings.txt")
    if os.path.exists(p):
        for line in open(p):
            line = line.strip()
            if not line or line.startswith("#"):
                continue
            m = re.match(r"known:\s+property=(\S+)\s+key=(\S+)\s+(.*)$", line)
            if m:
                known.append(dict(prop=m.group(1), key=m.group(2), text="key=%s %s" % (m.group(2), m.group(3))))
                continue
            m = re.match(r"fixed:\s+property=(\S+)\s+(\S+)\s+(.*)$", line)
            if m:
                fixed.append(dict(prop=m.group(1), commit=m.group(2), text=m.group(3)))
    return known, fixed


def match_known(known, prop, key):
    for k in known:
        if k["prop"] == prop and k["key"] == key:
            return k
    return None


def save_replay(prop, v):
    d = os.path.join(os.environ.get("VERIF_REPLAY_DIR") or os.path.join(VERIF, "replays"), prop)
    os.makedirs(d, exist_ok=True)
    body = json.dumps(v, sort_keys=True, indent=1)
    h = hashlib.sha256(body.encode()).hexdigest()[:12]
    p = os.path.join(d, h + ".json")
    with open(p, "w") as f:
        f.write(body + "\n")
    return p


def main(check_fn):
    import argparse
    ap = argparse.ArgumentParser()
    ap.add_argument("prop")
    ap.add_argument("--tier", default=os.environ.get("VERIF_TIER", "quick"), choices=["quick", "thorough"])
    ap.add_argument("--seed", type=int, default=int(os.environ.get("VERIF_SEED", "1")))
    ap.add_argument("--replay")
    a = ap.parse_args()
    run = Run(a.prop, a.tier, a.seed)
    try:
        rc = check_fn(run, a)
    except Machinery as e:
        log("MACHINERY FAILURE (exit 2, not a verdict): %s" % e)
        sys.exit(2)
    except subprocess.TimeoutExpired as e:
        log("MACHINERY FAILURE (timeout): %s" % e)
        sys.exit(2)
    except Exception:
        import traceback
        traceback.print_exc()
        log("MACHINERY FAILURE (exit 2, not a verdict): internal error of the check")
        sys.exit(2)
    sys.exit(rc)
