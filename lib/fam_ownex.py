"""Own examples (spec: Trace_Own.tla): the repository's Example functions and table-driven test cases are copied at check
time (harness/cmd/genown), executed against the tree under test (harness/cmd/ownrun), every value they build is dumped as
it is stored and the TLA+ model must reproduce the raw bytes and the import table; C02 monitors on the real outputs."""
import json, os, subprocess
import vf
from vf import Machinery


def check(run, args):
    run.build_harness()
    h = os.path.join(run.scratch, "h")
    env = run.goenv()
    exe = os.path.join(run.scratch, "ownrun")
    for cmd in (["go", "run", "./cmd/genown", os.path.join(vf.REPO, "jen"), os.path.join(h, "ownsrc")],
                ["go", "build", "-tags", "verif", "-o", exe, "./cmd/ownrun"]):
        r = subprocess.run(cmd, cwd=h, env=env, capture_output=True, text=True, errors="replace")
        if r.returncode != 0:
            raise Machinery("own examples: %s failed:\n%s%s" % (" ".join(cmd[:3]), r.stdout[-2000:], r.stderr[-2000:]))
    dump = os.path.join(run.scratch, "own_dump.ndjson")
    r = subprocess.run([exe, dump], cwd=run.scratch, env=env, capture_output=True, text=True, errors="replace", timeout=900)
    if r.returncode != 0:
        raise Machinery("ownrun failed:\n" + (r.stdout + r.stderr)[-3000:])
    trace = os.path.join(run.scratch, "ownex_trace.ndjson")
    stats = os.path.join(run.scratch, "ownex_stats.json")
    run.harness_run(["ownexamples", dump, trace, stats])
    os.remove(dump)
    st = json.load(open(stats))
    recs = run.validate_trace("Trace_Own.tla", "Trace_Own.cfg", trace_path=trace)
    tpath = os.path.join(run.tla_dir(), "trace%d.ndjson" % (len(run.tlc_runs) - 1))
    lines = open(tpath).read().splitlines()
    os.remove(tpath)
    drift = [x for x in recs if x["prop"] == "DRIFT"]
    run.drift += len(drift)
    viols, seen = [], set()
    for x in recs:
        if x["prop"] != run.prop or x["key"] in seen:
            continue
        seen.add(x["key"])
        e = json.loads(lines[x["line"] - 1])
        viols.append(dict(prop=run.prop, key="own examples: " + x["key"], family="ownex",
                          event={k: e[k] for k in e if k not in ("paths",)}))
    run.traces += st["stats"].get("traces", 0)
    run.evals += st["stats"].get("events", 0)
    run.distinct += st["stats"].get("values", 0) + st["stats"].get("files", 0)
    run.rule += "; own examples: every value built by the repository's Examples and test tables, distinct_nontrivial += distinct raw renderings"
    run.cov.setdefault("harness_stats", []).append(dict(own_examples=st["stats"], model_disagreements=[x["key"] for x in drift][:10]))
    run.samples += (st.get("samples") or [])[:1]
    return run.finish(viols)


def replay(run, path):
    raise Machinery("re-run the check; the value is stored in " + path)
