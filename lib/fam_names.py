"""gennames (C18, second sentence; spec: Trace_Names.tla): the tool is run from the tree under test on the installed toolchain."""
import json, os, subprocess
import vf
from vf import Machinery


def check(run, args):
    run.build_harness()
    out = os.path.join(run.scratch, "gennames_out.go")
    # the output file already exists and is LONGER than the new table (a table generated earlier, e.g. with a wider filter):
    # the tool must replace it, not write into it
    with open(out, "w") as f:
        f.write("package names\n\nvar Names = map[string]string{\n" + "".join('\t"old/entry/%d": "entry%d",\n' % (i, i) for i in range(2000)) + "}\n")
    r = subprocess.run(["go", "run", "./gennames", "-standard", "-output", out, "-package", "names", "-name", "Names"], cwd=vf.REPO, env=run.goenv(),
                       capture_output=True, text=True, errors="replace", timeout=1800)
    viols = []
    if r.returncode != 0 or not os.path.exists(out):
        # the tool is part of the property: it must produce a table on the installed toolchain
        viols.append(dict(prop="C18", key="gennames: the tool fails on the installed toolchain", family="names", output=(r.stdout + r.stderr)[-1500:]))
        return run.finish(viols if run.prop == "C18" else [])
    trace = os.path.join(run.scratch, "names_trace.ndjson")
    stats = os.path.join(run.scratch, "names_stats.json")
    run.harness_run(["names-post", out, trace, stats])
    st = json.load(open(stats))
    recs = run.validate_trace("Trace_Names.tla", "Trace_Names.cfg", trace_path=trace)
    tpath = os.path.join(run.tla_dir(), "trace%d.ndjson" % (len(run.tlc_runs) - 1))
    lines = open(tpath).read().splitlines()
    os.remove(tpath)
    seen = set()
    for x in recs:
        if x["prop"] == run.prop and x["key"] not in seen:
            seen.add(x["key"])
            viols.append(dict(prop=run.prop, key=x["key"], family="names", event=json.loads(lines[x["line"] - 1])))
    run.traces += st["stats"].get("traces", 0)
    run.evals += st["stats"].get("events", 0)
    run.distinct += st["stats"].get("entries_checked_against_package_clauses", 0)
    run.rule += "; gennames: every entry of the table the tool writes for the installed toolchain, distinct_nontrivial += entries compared with package clauses"
    run.cov.setdefault("harness_stats", []).append(dict(gennames=st["stats"]))
    return run.finish(viols)


def replay(run, path):
    raise Machinery("re-run the check; the entry is stored in " + path)
