"""Render family: C13 (lists), C16 + C07-dict (dicts), C15 (comments). Spec: Jen.tla, MC_Render.tla, Trace_Render.tla."""
import json, os, shutil
from vf import Machinery, log

PROFILE = {
    "C13": dict(universe="lists", quick=dict(MaxArity=3), thorough=dict(MaxArity=4), neg=[]),
    "C16": dict(universe="dicts", quick=dict(MaxArity=2), thorough=dict(MaxArity=3), neg=[("DictCollapse", "dicts")]),
    "C08": dict(universe="repeat", quick=dict(MaxArity=2), thorough=dict(MaxArity=3), neg=[]),
    "C15": dict(universe="comments", quick=dict(MaxArity=3), thorough=dict(MaxArity=3), neg=[]),
}


def gen_cases(run, universe, overrides, workers=None):
    d = run.tla_dir()
    run.tlc("MC_Render.tla", "Render_%s.cfg" % universe, overrides=overrides, timeout=3000, workers=workers)
    src = os.path.join(d, "cases.ndjson")
    if not os.path.exists(src):
        raise Machinery("no cases exported for " + universe)
    dst = os.path.join(run.scratch, "cases_%s_%d.ndjson" % (universe, len(run.tlc_runs)))
    shutil.move(src, dst)
    return dst


def check(run, args, extra_cases=None, props=None):
    prop, tier = run.prop, run.tier
    prof = PROFILE[prop]
    run.build_harness()
    files = [gen_cases(run, prof["universe"], prof[tier])]
    if tier == "thorough":
        d = run.tla_dir()
        for legacy, u in prof["neg"]:
            cfg = "Render_%s.cfg" % u
            name = "neg_" + cfg
            with open(os.path.join(d, cfg)) as f, open(os.path.join(d, name), "w") as g:
                g.write("".join(l for l in f if not l.startswith("CONSTRAINT Emit")))
            run.tlc("MC_Render.tla", name, overrides={"Legacy": '{"%s"}' % legacy, "MaxArity": 2}, expect_violation=True)
    return execute(run, files, repeats=64 if tier == "thorough" else 16)


def execute(run, files, repeats=16):
    trace = os.path.join(run.scratch, "trace.ndjson")
    stats = os.path.join(run.scratch, "stats.json")
    run.harness_run(["cases", trace, stats] + files + ["--repeats", str(repeats)])
    for f in files:
        os.remove(f)
    st = json.load(open(stats))
    recs = run.validate_trace("Trace_Render.tla", "Trace_Render.cfg", trace_path=trace)
    tpath = os.path.join(run.tla_dir(), "trace%d.ndjson" % (len(run.tlc_runs) - 1))
    prop = run.prop
    mine = [r for r in recs if r["prop"] == prop]
    run.drift += sum(1 for r in recs if r["prop"] == "DRIFT")
    drift_keys = sorted({r["key"] for r in recs if r["prop"] == "DRIFT"})[:10]
    others = sorted({r["prop"] for r in recs if r["prop"] not in (prop, "DRIFT")})
    firsts = {}
    for r in mine:
        firsts.setdefault(r["key"], r)
    wanted = {r["line"]: r for r in firsts.values()}
    events = {}
    if wanted:
        for n, line in enumerate(open(tpath), 1):
            if n in wanted:
                events[n] = json.loads(line)
    os.remove(tpath)
    viols = [dict(prop=prop, key=r["key"], family="render", line=r["line"], event=events.get(r["line"])) for r in firsts.values()]
    run.traces += st["stats"].get("traces", 0)
    run.evals += st["stats"].get("events", 0)
    run.distinct += st["stats"].get("nontrivial_cases", 0)
    run.rule += ("cases = every state of the MC_Render universe (exported by TLC, executed on the real library); "
                "non-trivial = cases with >= 2 items / >= 2 live pairs / a comment in a container, counted distinct")
    run.samples += (st.get("samples") or [])
    run.exhaustive = True
    run.cov["other_properties_flagged_in_same_traces"] = others
    run.cov["drift_keys"] = drift_keys
    run.cov.setdefault("harness_stats", []).append(st["stats"])
    run.assumptions += ["raw bytes are those of a NoFormat File; formatted output and token streams come from go/format, go/scanner, go/parser"]
    return run.finish(viols)


def replay(run, path):
    v = json.load(open(path))
    raise Machinery("replay of render cases: re-run the check; the failing case is stored in " + path)
