"""Program-level variants (C13 C14 C15 quantify over real and generated programs): source files of the vendored corpus and of
GOROOT/src are translated into File histories (the C01 translator), executed unchanged and in a changed way that the
property says must not matter (null-like items injected / a random form at every node / comments added), and the two
executions are compared; Jen!RenderFile must reproduce the raw bytes of the variant for every k-th file (Trace_Imports)."""
import json, os, subprocess, concurrent.futures
import fam_imports
from vf import Machinery, CORES, VERIF


def check(run, args):
    thorough = run.tier == "thorough"
    exe = run.build_harness()
    shards = 16 if thorough else 6
    sample = 1800 if thorough else 90
    every = 6 if thorough else 3
    env = run.goenv()
    env["VERIF_SEED"] = str(run.seed)

    def one(i):
        t = os.path.join(run.scratch, "pv%d.ndjson" % i)
        s = os.path.join(run.scratch, "pv%d.json" % i)
        r = subprocess.run([exe, "corpus", t, s, os.path.join(VERIF, "corpus"), str(sample), str(i), str(shards), str(every), run.prop],
                           env=env, capture_output=True, text=True, errors="replace", timeout=7200)
        if r.returncode != 0:
            raise Machinery("program variants shard %d failed:\n%s" % (i, r.stderr[-2000:]))
        return t, s
    with concurrent.futures.ThreadPoolExecutor(max_workers=min(shards, CORES)) as ex:
        outs = list(ex.map(one, range(shards)))
    total = {}
    for t, s in outs:
        st = json.load(open(s))
        for k, v in st["stats"].items():
            total[k] = total.get(k, 0) + v
        if os.path.getsize(t) == 0:
            os.remove(t)
            continue
        fam_imports.validate(run, t, st)
    run.cov["program_variants"] = total
    run.distinct += total.get("variant_injections", 0)
    run.rule += "; program variants: translated source files executed unchanged and changed, distinct_nontrivial += injected items / comments / non-default forms"
    run.assumptions += ["program variants: the reference is the unchanged execution of the same translated file (raw bytes, formatted bytes, code tokens) and the source's AST"]
    return run.finish([])


def replay(run, path):
    raise Machinery("re-run the check with the same VERIF_SEED; the file is named in " + path)
