"""System tier (spec: JenSystem.tla, MC_System.tla, Trace_System.tla): one state machine for the heap of Statements,
several Files and the observations.  (A) TLC: exhaustive for small bounds; (export) TLC -simulate writes long random
behaviours; (B) each is executed on the real library, the recorded calls drive the specification's own actions and the
model must reproduce bytes / tokens / import tables; (C) monitors of C02 C03 C05 C06 C08 C09 C10 on the observations,
among them the isolated-twin comparison for C09."""
import json, os, shutil
from vf import Machinery

FULL = {"C08", "C09"}      # properties whose quick tier runs the exhaustive model check of the system spec as well


def check(run, args):
    thorough = run.tier == "thorough"
    full = run.prop in FULL
    run.build_harness()
    d = run.tla_dir()
    if thorough:
        run.tlc("MC_System.tla", "System_small.cfg", overrides=dict(MaxOps=5), timeout=3000, xmx="12g")
    elif full:
        run.tlc("MC_System.tla", "System_small.cfg")
    num = (4000 if thorough else 120) if full else (1500 if thorough else 40)
    workers = 8 if thorough else 4
    run.tlc("MC_System.tla", "System_sim.cfg", simulate="num=%d" % num, extra=["-depth", "24"], workers=workers, count=False,
            overrides=dict(MaxOps=20) if thorough else None)
    src = os.path.join(d, "system.ndjson")
    if not os.path.exists(src):
        raise Machinery("the system simulation exported no behaviours")
    hf = os.path.join(run.scratch, "system_hists.ndjson")
    shutil.move(src, hf)
    hfs = [hf]
    if thorough and full:
        # every behaviour of the small exhaustive configuration (one witness per final state) is replayed as well
        # (without front-matter calls, MaxMeta = 0: that keeps the number of behaviours near 150 k; front matter is covered by
        # the simulated and the seeded behaviours)
        run.tlc("MC_System.tla", "System_small.cfg", overrides=dict(SysExport="TRUE", MaxMeta=0), timeout=3000, xmx="12g", count=False)
        hf2 = os.path.join(run.scratch, "system_hists_exhaustive.ndjson")
        shutil.move(src, hf2)
        hfs.append(hf2)
    trace = os.path.join(run.scratch, "system_trace.ndjson")
    stats = os.path.join(run.scratch, "system_stats.json")
    nrand = (6000 if thorough else 300) if full else (2000 if thorough else 100)
    run.harness_run(["system", trace, stats] + hfs + ["--random", str(nrand), "60" if thorough else "40"], timeout=7200)
    for x in hfs:
        os.remove(x)
    st = json.load(open(stats))
    recs = run.validate_trace("Trace_System.tla", "Trace_System.cfg", trace_path=trace)
    tpath = os.path.join(d, "trace%d.ndjson" % (len(run.tlc_runs) - 1))
    run.drift += sum(1 for x in recs if x["prop"] == "DRIFT")
    mine, seen = [], set()
    for x in recs:
        if x["prop"] in (run.prop, "CRASH") and x["key"] not in seen:
            seen.add(x["key"])
            mine.append(x)
    wanted = {x["trace"] for x in mine[:20]}
    slices, cur = {}, None
    if wanted:
        for line in open(tpath):
            e = json.loads(line)
            if e.get("ev") == "Files":
                cur = e["trace"]
            if cur in wanted:
                slices.setdefault(cur, []).append({k: e[k] for k in e if k not in ("raw", "toks")})
    os.remove(tpath)
    viols = [dict(prop=run.prop, key=x["key"], family="system", trace=x["trace"], line=x["line"], events=slices.get(x["trace"], []))
             for x in mine]
    run.traces += st["stats"].get("traces", 0)
    run.evals += st["stats"].get("events", 0)
    run.distinct += st["stats"].get("file_renders_with_2plus_imports", 0)
    run.rule += "; system tier: behaviours of JenSystem (TLC -simulate + seeded Go driver), distinct_nontrivial += distinct File outputs with >= 2 imports"
    run.cov.setdefault("harness_stats", []).append(dict(system=st["stats"]))
    run.samples += (st.get("samples") or [])[:1]
    run.assumptions += ["system tier: every File render / RenderWithFile is also made on an isolated twin built from the heap operations and that File's own calls only"]
    return run.finish(viols)


def replay(run, path):
    raise Machinery("re-run the check; the behaviour is stored in " + path)
