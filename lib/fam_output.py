"""Output family: C10 (spec: JenOutput.tla, Trace_Output.tla)."""
import json, os, shutil
from vf import Machinery


def check(run, args):
    thorough = run.tier == "thorough"
    run.build_harness()
    d = run.tla_dir()
    run.tlc("JenOutput.tla", "Output.cfg", workers=4)
    cf = os.path.join(run.scratch, "output_cases.ndjson")
    shutil.move(os.path.join(d, "output_cases.ndjson"), cf)
    if thorough:
        # the properties also hold for an implementation that writes in two chunks (benign refactor)
        with open(os.path.join(d, "Output.cfg")) as f, open(os.path.join(d, "chunks2_Output.cfg"), "w") as g:
            g.write("".join(l for l in f if not l.startswith("CONSTRAINT Emit")))
        run.tlc("JenOutput.tla", "chunks2_Output.cfg", overrides=dict(Chunks=2), workers=4)
    trace = os.path.join(run.scratch, "trace.ndjson")
    stats = os.path.join(run.scratch, "stats.json")
    run.harness_run(["output", trace, stats, "--variants", "32" if thorough else "8", cf])
    os.remove(cf)
    st = json.load(open(stats))
    recs = run.validate_trace("Trace_Output.tla", "Trace_Output.cfg", trace_path=trace)
    tpath = os.path.join(d, "trace%d.ndjson" % (len(run.tlc_runs) - 1))
    mine = [r for r in recs if r["prop"] == run.prop]
    run.drift += sum(1 for r in recs if r["prop"] == "DRIFT")
    firsts = {}
    for r in mine:
        firsts.setdefault(r["key"], r)
    wanted = {r["line"] for r in firsts.values()}
    events = {}
    for n, line in enumerate(open(tpath), 1):
        if n in wanted:
            events[n] = json.loads(line)
    os.remove(tpath)
    viols = [dict(prop=run.prop, key=r["key"], family="output", event=events.get(r["line"])) for r in firsts.values()]
    run.traces += st["stats"].get("traces", 0)
    run.evals += st["stats"].get("events", 0)
    run.distinct += st["stats"].get("placements_x_trees", 0)
    run.rule += ("every fault placement of JenOutput (entry point x valid/invalid x NoFormat x writer failing at call 1/2 x Save target kind), "
                 "exported by TLC, each executed with 8 (thorough: 32) trees, half of them in Files that use every file-level feature (header / package comments, canonical path, cgo preamble, prefix, Anon, alias hint); distinct_nontrivial = distinct (placement, tree) pairs")
    run.samples += (st.get("samples") or [])
    run.exhaustive = True
    run.cov.setdefault("harness_stats", []).append(st["stats"])
    run.assumptions += ["writer double records every Write call; formattability of the raw rendering is decided by go/format on a NoFormat twin",
                        "the sandbox runs as root, so an unwritable directory is replaced by 'parent is a regular file' and 'missing directory'"]
    return run.finish(viols, level="fault_enumeration" if False else "model_checking")


def replay(run, path):
    raise Machinery("re-run bin/check C10; the failing placement is stored in " + path)
