package main

// Import family: replay of File histories (TLC-generated or driver-generated) on the
// real library; every Render / fragment render is projected and written to the trace.

import (
	"bytes"
	"encoding/json"
	"fmt"
	"go/parser"
	"go/token"
	"os"
	"path/filepath"
	"sort"
	"strconv"
	"strings"
	"unicode"

	"github.com/dave/jennifer/jen"
)

type Action struct {
	A         string            `json:"a"`
	P         string            `json:"p"`
	N         string            `json:"n"`
	Tree      *Node             `json:"tree,omitempty"`
	Local     string            `json:"local"`
	Prefix    string            `json:"prefix"`
	Preamble  []string          `json:"preamble"`
	Name      string            `json:"name"` // package name (New); default main
	Ctor      string            `json:"ctor"` // NewFile | NewFilePath | NewFilePathName
	Headers   []string          `json:"headers"`
	Comments  []string          `json:"comments"`
	Canonical string            `json:"canonical"`
	M         map[string]string `json:"m,omitempty"` // ImportNames
	SrcInfo   *SourceInfo       `json:"-"`           // C01: facts of the source file this history was translated from
	SrcName   string            `json:"-"`
	Light     bool              `json:"-"` // do not write trees / raw bytes to the trace (no model comparison)
	Variant   *VariantInfo      `json:"-"` // program-level variant (C13 C14 C15): compared with the unchanged execution
}

var probeCache = map[string]string{}

// probeStd learns what the tree under test believes the name of path is when it imports it
// without alias (its std table); "" when it aliases the path.  Used for model prediction only.
func probeStd(path string) string {
	if v, ok := probeCache[path]; ok {
		return v
	}
	res := ""
	func() {
		defer func() { recover() }()
		f := jen.NewFile("main")
		f.NoFormat = true
		f.Var().Id("_").Op("=").Qual(path, "X")
		var buf bytes.Buffer
		if err := f.Render(&buf); err != nil {
			return
		}
		specs, refs, _ := ProjectImports(buf.Bytes(), map[string]string{"X": path})
		if len(specs) == 1 && specs[0].Name == "" && len(refs) == 1 {
			res = refs[0].Qual
		}
	}()
	probeCache[path] = res
	return res
}

type pathInfo struct {
	Std    string `json:"std"`
	Guess  string `json:"guess"`
	Quoted string `json:"quoted"`
	Real   string `json:"real"`
	Lower  []int  `json:"lower"` // the path rune by rune after unicode.ToLower (input of JenGuess!Guess)
}

// lowerCodes: what strings.ToLower sees, as code points (an invalid byte counts as U+FFFD).
func lowerCodes(path string) []int {
	out := []int{}
	for _, r := range path {
		out = append(out, int(unicode.ToLower(r)))
	}
	return out
}

func infoOf(p string) pathInfo {
	return pathInfo{Std: probeStd(p), Guess: RefGuess(p), Quoted: strconv.Quote(p), Real: StdName(p), Lower: lowerCodes(p)}
}

func historyPaths(h []Action) []string {
	set := map[string]bool{}
	for _, a := range h {
		if a.P != "" {
			set[a.P] = true
		}
		for k := range a.M {
			set[k] = true
		}
		if a.Tree != nil {
			Walk(a.Tree, func(n *Node) {
				if n.K == "tok" && n.T == "pkg" {
					set[n.V] = true
				}
			})
		}
		if a.A == "New" && len(a.Preamble) > 0 {
			set["C"] = true
		}
	}
	return sortedKeys(set)
}

func tableOf(f *jen.File) []Rec {
	_, _, _, imports, _ := jen.VerifState(f)
	paths := []string{}
	for p := range imports {
		paths = append(paths, p)
	}
	sort.Strings(paths)
	out := []Rec{}
	for _, p := range paths {
		out = append(out, Rec{"path": p, "name": imports[p][0], "alias": imports[p][1] != ""})
	}
	return out
}

func newFile(a Action, noformat bool) *jen.File {
	name := a.Name
	if name == "" {
		name = "main"
	}
	var f *jen.File
	switch {
	case a.Ctor == "NewFilePath":
		f = jen.NewFilePath(a.Local)
	case a.Local != "":
		f = jen.NewFilePathName(a.Local, name)
	default:
		f = jen.NewFile(name)
	}
	f.PackagePrefix = a.Prefix
	f.NoFormat = noformat
	for _, c := range a.Preamble {
		f.CgoPreamble(c)
	}
	for _, c := range a.Headers {
		f.HeaderComment(c)
	}
	for _, c := range a.Comments {
		f.PackageComment(c)
	}
	f.CanonicalPath = a.Canonical
	return f
}

type renderResult struct {
	status string
	out    []byte
	msg    string
}

func safely(fn func() ([]byte, error)) (r renderResult) {
	defer func() {
		if p := recover(); p != nil {
			r = renderResult{status: "panic", msg: fmt.Sprint(p)}
		}
	}()
	out, err := fn()
	if err != nil {
		return renderResult{status: "error", msg: err.Error()}
	}
	return renderResult{status: "nil", out: out}
}

func renderFile(f *jen.File) renderResult {
	return safely(func() ([]byte, error) {
		var buf bytes.Buffer
		err := f.Render(&buf)
		return buf.Bytes(), err
	})
}

// ReplayHistory executes one history on a formatted File and its NoFormat twin and emits the trace.
func ReplayHistory(tw *TraceWriter, id int, h []Action) {
	if len(h) == 0 || h[0].A != "New" {
		fatal("history does not start with New")
	}
	tw.Traces++
	paths := historyPaths(h)
	info := map[string]pathInfo{}
	for _, p := range paths {
		info[p] = infoOf(p)
	}
	if len(info) == 0 {
		info["fmt"] = infoOf("fmt")
	}
	pre := h[0].Preamble
	if pre == nil {
		pre = []string{}
	}
	preNodes := []*Node{}
	for _, c := range pre {
		preNodes = append(preNodes, CommentNode(c))
	}
	allPaths := []string{}
	for p := range info {
		allPaths = append(allPaths, p)
	}
	sort.Strings(allPaths)
	predoc := ""
	for _, c := range pre {
		predoc += StripSpace(CommentText(c))
	}
	cmtNodes := func(cs []string) []*Node {
		out := []*Node{}
		for _, c := range cs {
			out = append(out, CommentNode(c))
		}
		return out
	}
	canonq := ""
	if h[0].Canonical != "" {
		canonq = strconv.Quote(h[0].Canonical)
	}
	tw.Emit(Rec{"ev": "New", "trace": id, "headers": cmtNodes(h[0].Headers), "comments": cmtNodes(h[0].Comments), "canonicalq": canonq, "canonical": h[0].Canonical, "local": h[0].Local, "prefix": h[0].Prefix, "preamble": preNodes, "predoc": predoc,
		"paths": info, "sorted": allPaths, "pkgname": func() string {
			if h[0].Name == "" {
				return "main"
			}
			return h[0].Name
		}()})
	fA := newFile(h[0], false)
	fB := newFile(h[0], true)
	syms := map[string]string{}
	nrefs := 0
	bA, bB := NewBuilder(), NewBuilder()
	cbBuild, cbRender, nforms, ncb, rendering := 0, 0, 0, 0, false
	if vi := h[0].Variant; vi != nil && vi.Prop == "C14" {
		// a random form at every node; the two Files get different choices; callbacks are counted per phase
		dummyF, dummyC := 0, 0
		bA.Form = randomForms(vi.Seed, &nforms, &ncb)
		bB.Form = randomForms(vi.Seed+7, &dummyF, &dummyC)
		bA.DoSplit = randomDoSplits(vi.Seed, &nforms, &ncb)
		bB.DoSplit = randomDoSplits(vi.Seed+7, &dummyF, &dummyC)
		bA.Callback = func(string) {
			if rendering {
				cbRender++
			} else {
				cbBuild++
			}
		}
		bB.Callback = func(string) {
			if rendering {
				cbRender++
			}
		}
	}
	// every third history: the added Code values are built with a random form at every node (incl. ...Func variants) and
	// are rendered once on their own (GoString, as a debugging print would) BEFORE they are added to the File -
	// rendering a value must not change what it renders next, with whatever File (C08 / C04: a freshly built File)
	prerender := h[0].Variant == nil && id%3 == 1
	if prerender {
		d1, d2, d3, d4 := 0, 0, 0, 0
		bA.Form = randomForms(int64(id)*31+seedFromEnv(), &d1, &d2)
		bB.Form = randomForms(int64(id)*37+seedFromEnv(), &d3, &d4)
		bA.DoSplit = randomDoSplits(int64(id)*31+seedFromEnv(), &d1, &d2)
		bB.DoSplit = randomDoSplits(int64(id)*37+seedFromEnv(), &d3, &d4)
	}
	prer := func(c jen.Code) jen.Code {
		if prerender && c != nil {
			func() {
				defer func() { recover() }()
				_ = fmt.Sprintf("%#v", c)
			}()
		}
		return c
	}
	buildPanic := ""
	body := []*Node{}
	for _, a := range h[1:] {
		switch a.A {
		case "ImportName":
			fA.ImportName(a.P, a.N)
			fB.ImportName(a.P, a.N)
			tw.Emit(Rec{"ev": "ImportName", "p": a.P, "n": a.N})
		case "ImportAlias":
			fA.ImportAlias(a.P, a.N)
			fB.ImportAlias(a.P, a.N)
			tw.Emit(Rec{"ev": "ImportAlias", "p": a.P, "n": a.N})
		case "ImportNames":
			mA, mB := map[string]string{}, map[string]string{}
			keys := []string{}
			for k, v := range a.M {
				mA[k], mB[k] = v, v
				keys = append(keys, k)
			}
			sort.Strings(keys)
			fA.ImportNames(mA)
			fB.ImportNames(mB)
			for _, k := range keys {
				tw.Emit(Rec{"ev": "ImportName", "p": k, "n": a.M[k]})
			}
		case "Anon":
			fA.Anon(a.P)
			fB.Anon(a.P)
			tw.Emit(Rec{"ev": "Anon", "p": a.P})
		case "Preamble":
			// a cgo preamble block supplied later (possibly after the File was rendered)
			fA.CgoPreamble(a.N)
			fB.CgoPreamble(a.N)
			predoc += StripSpace(CommentText(a.N))
			tw.Emit(Rec{"ev": "Preamble", "node": CommentNode(a.N), "predoc": predoc})
		case "Add":
			Syms([]*Node{a.Tree}, syms)
			// (a DSL call that panics while the tree is being BUILT is an observation as well: the next render reports it)
			if r := safely(func() ([]byte, error) {
				fA.Add(prer(bA.Code(a.Tree)))
				fB.Add(prer(bB.Code(a.Tree)))
				return nil, nil
			}); r.status == "panic" {
				buildPanic = r.msg
			}
			body = append(body, a.Tree)
			if h[0].SrcInfo != nil || h[0].Light {
				tw.Emit(Rec{"ev": "Add", "tree": Rec{"k": "nil"}}) // the observed body travels with the Render event
			} else {
				tw.Emit(Rec{"ev": "Add", "tree": a.Tree})
			}
			nrefs++
		case "Render":
			rendering = true
			rA := renderFile(fA)
			if buildPanic != "" {
				rA = renderResult{status: "panic", msg: "while building: " + buildPanic}
			}
			if id%4 == 2 && h[0].Variant == nil {
				// the other way to the same output: the File has just been rendered, now it is SAVED and the saved file is the
				// observation (Save must give what Render gives, whatever was rendered with the File before)
				rA = safely(func() ([]byte, error) {
					tmp := filepath.Join(os.TempDir(), fmt.Sprintf("verif-save-%d-%d.go", os.Getpid(), id))
					defer os.Remove(tmp)
					if err := fA.Save(tmp); err != nil {
						return nil, err
					}
					return os.ReadFile(tmp)
				})
				tw.Stats["observations_through_Save"]++
			}
			if id%4 == 3 && h[0].Variant == nil && rA.status == "nil" {
				// and File.GoString (%#v of the File): the same bytes as Render when Render succeeds
				rA = safely(func() ([]byte, error) { return []byte(fA.GoString()), nil })
				tw.Stats["observations_through_File_GoString"]++
			}
			stop := watchDicts()
			rB := renderFile(fB)
			fixupDicts(bB, stop()) // the body as the NoFormat twin's render visited it (Dict first-pass orders)
			rendering = false
			src := rA.out
			if rA.status != "nil" {
				src = rB.out
			}
			specs, refs, bare := ProjectImports(src, syms)
			parses := rA.status == "nil" && ParsesAsFile(rA.out)
			if parses {
				if docs, ok := ImportDocs(rA.out); ok {
					for i := range specs {
						if specs[i].Decl-1 < len(docs) {
							specs[i].Doc = docs[specs[i].Decl-1]
						}
					}
				}
			}
			fm, fmok := Gofmt(rB.out)
			c01 := Rec{"on": false, "parses": false, "pkgeq": false, "impeq": false, "asteq": false, "ndecls": 0, "ndiff": 0, "firstdiff": "", "impdiff": "", "file": "", "known": ""}
			if h[0].SrcInfo != nil {
				c01 = CompareOutput(rA.out, h[0].SrcInfo)
				c01["on"], c01["file"], c01["known"] = true, h[0].SrcName, h[0].SrcInfo.Known
			}
			c01["msg"] = ""
			if rA.status != "nil" && len(rA.msg) > 0 {
				c01["msg"] = rA.msg[:min(len(rA.msg), 400)]
			}
			c01["var"] = Rec{"prop": "", "n": 0, "sameraw": true, "sameout": true, "sametoks": true, "cmtok": true, "cbok": true, "basestatus": ""}
			if vi := h[0].Variant; vi != nil {
				if vi.Prop == "C14" {
					vi.N = nforms
				}
				c01["var"] = variantFacts(vi, rA.status, rA.out, rB.out, cbBuild, cbRender, ncb)
			}
			rawstatus, rawtext, obsBody := rB.status, string(rB.out), append([]*Node{}, body...)
			if h[0].Light {
				rawstatus, rawtext, obsBody = "skip", "", []*Node{}
			}
			c15f := fileCommentFacts(rA, h[0])
			c15r := fileCommentFacts(rB, h[0]) // the NoFormat twin must place the comments right as well
			tw.Emit(Rec{"ev": "Render", "c01": c01, "c15f": c15f, "c15r": c15r, "status": rA.status, "rawstatus": rawstatus, "specs": specs, "refs": refs, "bare": bare,
				"raw": rawtext, "out": Hash(rA.out), "table": tableOf(fB), "parses": parses, "body": obsBody,
				"fmteq": rA.status == "nil" && fmok && bytes.Equal(fm, rA.out), "fmtok": fmok})
			names := map[string]int{}
			for _, s := range specs {
				names[s.Name]++
			}
			if len(specs) >= 2 {
				tw.Distinct("renders_with_2plus_imports", string(rB.out))
			}
		case "Frag":
			Syms([]*Node{a.Tree}, syms)
			var sA, sB jen.Code
			built := safely(func() ([]byte, error) {
				sA = NewBuilder().Code(a.Tree)
				sB = NewBuilder().Code(a.Tree)
				return nil, nil
			})
			frag := func(c jen.Code, f *jen.File) renderResult {
				if built.status == "panic" {
					return renderResult{status: "panic", msg: "while building: " + built.msg}
				}
				return safely(func() ([]byte, error) {
					var buf bytes.Buffer
					var err error
					switch v := c.(type) {
					case *jen.Statement:
						if id%2 == 0 {
							// the same fragment through a *Group (obtained from a ...Func callback; no tokens of its own)
							var g *jen.Group
							jen.CustomFunc(jen.Options{}, func(gg *jen.Group) { gg.Add(v); g = gg })
							err = g.RenderWithFile(&buf, f)
						} else {
							err = v.RenderWithFile(&buf, f)
						}
					default:
						err = fmt.Errorf("fragment is not a statement")
					}
					return buf.Bytes(), err
				})
			}
			rA := frag(sA, fA)
			frag(sB, fB)
			_, refs, bare := ProjectImports(rA.out, syms)
			var ftree interface{} = a.Tree
			skip := false
			if h[0].Light {
				ftree, skip = Rec{"k": "nil"}, true // (large histories: no model comparison; trees nested beyond the JSON reader's limit)
			}
			tw.Emit(Rec{"ev": "Frag", "tree": ftree, "skip": skip, "status": rA.status, "refs": refs, "bare": bare, "text": string(rA.out),
				"table": tableOf(fA), "parses": rA.status == "nil" && ParsesAsFragment(rA.out)})
		default:
			fatal("unknown action " + a.A)
		}
	}
	if id <= 2 && h[0].SrcInfo != nil {
		tw.Sample(Rec{"source_file": h[0].SrcName, "declarations": len(h[0].SrcInfo.Decls), "history_actions": len(h)})
	} else if id <= 2 {
		b, _ := json.Marshal(h)
		var v interface{}
		json.Unmarshal(b, &v)
		tw.Sample(v)
	}
}

// CommentNode classifies a comment text the way the documentation describes: raw when it starts with a
// comment marker, block style when it contains a newline, line style otherwise.
func CommentNode(text string) *Node {
	st := "line"
	switch {
	case len(text) >= 2 && (text[:2] == "//" || text[:2] == "/*"):
		st = "raw"
	case len(text) > 0 && text[len(text)-1] == '\n':
		st = "blocknl"
	case bytes.IndexByte([]byte(text), '\n') >= 0:
		st = "block"
	}
	return &Node{K: "cmt", V: text, St: st}
}

func cmdImports(args []string) {
	// usage: imports <out.ndjson> <stats.json> [--hists file]... [--driver name:count]...
	if len(args) < 2 {
		fatal("usage: imports out stats [--hists f] [--driver name:n]")
	}
	tw := NewTraceWriter(args[0])
	id := 0
	for i := 2; i < len(args); i++ {
		switch args[i] {
		case "--hists":
			i++
			readLines(args[i], func(line []byte) {
				var h []Action
				decodeTLCLine(line, &h)
				id++
				ReplayHistory(tw, id, h)
			})
		case "--compose":
			// --compose table.json n
			n := 0
			fmt.Sscan(args[i+2], &n)
			for _, h := range ComposeDriver(args[i+1], n) {
				id++
				ReplayHistory(tw, id, h)
			}
			i += 2
		case "--driver":
			i++
			for _, h := range ImportDriver(args[i]) {
				id++
				ReplayHistory(tw, id, h)
			}
		default:
			fatal("unknown argument " + args[i])
		}
	}
	tw.Close(args[1])
}

// fileCommentFacts measures the file-level comment placement of a formatted output (C15): the package doc is exactly
// the PackageComment texts, no HeaderComment text is part of it (but every header is present above it), and the
// canonical import path is a well-formed annotation on the package clause.
func fileCommentFacts(r renderResult, a Action) Rec {
	out := Rec{"on": false, "docok": true, "headok": true, "canonok": true}
	if r.status != "nil" || (len(a.Headers) == 0 && len(a.Comments) == 0 && a.Canonical == "") {
		return out
	}
	fset := token.NewFileSet()
	af, err := parser.ParseFile(fset, "", r.out, parser.ParseComments)
	if err != nil {
		return out
	}
	out["on"] = true
	// gofmt reflows doc comments (blank // lines, indentation of code blocks): compare the text content only
	doc := ""
	if af.Doc != nil {
		for _, c := range af.Doc.List {
			doc += commentContent(c.Text)
		}
	}
	want := ""
	for _, c := range a.Comments {
		want += commentContent(CommentText(c))
	}
	out["docok"] = doc == want
	headok := true
	for _, hc := range a.Headers {
		w := commentContent(CommentText(hc))
		found := false
		for _, g := range af.Comments {
			if g == af.Doc || g.Pos() > af.Package {
				continue
			}
			t := ""
			for _, c := range g.List {
				t += commentContent(c.Text)
			}
			if strings.Contains(t, w) {
				found = true
			}
		}
		if !found {
			headok = false
		}
	}
	out["headok"] = headok
	if a.Canonical != "" {
		canonok := false
		line := fset.Position(af.Package).Line
		for _, g := range af.Comments {
			for _, c := range g.List {
				if fset.Position(c.Pos()).Line == line && strings.HasPrefix(c.Text, "// import ") {
					if p, err := strconv.Unquote(strings.TrimSpace(strings.TrimPrefix(c.Text, "// import "))); err == nil && p == a.Canonical {
						canonok = true
					}
				}
			}
		}
		out["canonok"] = canonok
	}
	return out
}

// commentContent removes the comment markers and all white space from a comment.
func commentContent(c string) string {
	var b strings.Builder
	if strings.HasPrefix(c, "/*") {
		c = strings.TrimSuffix(strings.TrimPrefix(c, "/*"), "*/")
		return StripSpace(c)
	}
	for _, line := range strings.Split(c, "\n") {
		line = strings.TrimSpace(line)
		line = strings.TrimPrefix(line, "//")
		b.WriteString(line)
	}
	return StripSpace(b.String())
}
