package main

// Heap family (C20): operation histories on real Statements; after every operation every
// live statement is rendered and projected to its token list.

import (
	"bytes"
	"encoding/json"
	"fmt"
	"io"
	"os"
	"regexp"
	"strconv"
	"strings"

	"github.com/dave/jennifer/jen"
)

type HeapOp struct {
	Op string `json:"op"`
	C  int    `json:"c"`
	K  int    `json:"k"`
}

// flatOf renders a statement through a NoFormat File and returns the token numbers t<n> in order.
func flatOf(s *jen.Statement) []int {
	out := []int{}
	r := safely(func() ([]byte, error) {
		f := jen.NewFile("main")
		f.NoFormat = true
		f.Add(s)
		var buf bytes.Buffer
		err := f.Render(&buf)
		return buf.Bytes(), err
	})
	if r.status != "nil" {
		return []int{-1}
	}
	txt := string(r.out)
	if i := strings.Index(txt, "\n\n"); i >= 0 {
		txt = txt[i:]
	}
	// every appended item carries one numbered identifier t<n>, whatever construct it is wrapped in
	for _, m := range heapTok.FindAllString(txt, -1) {
		n, _ := strconv.Atoi(m[1:])
		out = append(out, n)
	}
	return out
}

var heapTok = regexp.MustCompile(`t[0-9]+`)

// heapItem: the n-th appended item. Most are plain identifiers; some are other constructs around the identifier (a case
// clause, a struct tag, parentheses, a literal, a call) - what is appended to a statement or its clone must stay intact
// whatever kind of item ends the statement.
func heapItem(s *jen.Statement, n int, shape int) {
	id := "t" + strconv.Itoa(n)
	switch shape % 8 {
	case 1:
		s.Case(jen.Id(id))
	case 2:
		s.Tag(map[string]string{"k": id})
	case 3:
		s.Parens(jen.Id(id))
	case 4:
		s.Lit(id)
	case 5:
		s.Id(id).Call()
	default:
		s.Id(id)
	}
}

func ReplayHeap(tw *TraceWriter, id int, ops []HeapOp) {
	tw.Traces++
	tw.Emit(Rec{"op": "Reset", "trace": id})
	cells := []*jen.Statement{}
	ntok := 0
	shapes := id%3 == 2 // a third of the histories appends items of several shapes
	appendToks := func(s *jen.Statement, k int, variant int) {
		// vary the API used for appending: one call per token, or one Add with several items
		if variant%2 == 0 {
			for i := 0; i < k; i++ {
				ntok++
				if shapes {
					heapItem(s, ntok, ntok*7+id)
				} else {
					s.Id("t" + strconv.Itoa(ntok))
				}
			}
		} else {
			items := []jen.Code{}
			for i := 0; i < k; i++ {
				ntok++
				items = append(items, jen.Id("t"+strconv.Itoa(ntok)))
			}
			s.Add(items...)
		}
	}
	for i, op := range ops {
		switch op.Op {
		case "New":
			s := jen.Add()
			appendToks(s, op.K, 0)
			cells = append(cells, s)
		case "App":
			appendToks(cells[op.C-1], op.K, 0)
		case "Clone":
			cells = append(cells, cells[op.C-1].Clone())
		default:
			fatal("bad heap op " + op.Op)
		}
		// long histories: only some statements are observed after each operation (the one operated on, the first ones,
		// the latest ones, a few in the middle); the others are marked -2
		flats := [][]int{}
		for ci, c := range cells {
			if len(ops) > 60 && !(ci < 3 || ci >= len(cells)-3 || ci == op.C-1 || ci == op.C || ci%97 == i%97) {
				flats = append(flats, []int{-2})
				continue
			}
			flats = append(flats, flatOf(c))
		}
		tw.Emit(Rec{"op": op.Op, "c": op.C, "k": op.K, "flats": flats, "light": len(ops) > 60})
		if i == len(ops)-1 && len(ops) >= 4 {
			tw.Distinct("histories_with_4plus_ops", fmt.Sprint(ops))
		}
	}
	if id <= 3 {
		tw.Sample(Rec{"ops": ops})
	}
}

func cmdHeap(args []string) {
	// usage: heap <out.ndjson> <stats.json> <hists.ndjson>... [--random n]
	tw := NewTraceWriter(args[0])
	seen := map[string]bool{}
	items := []json.RawMessage{}
	add := func(ops []HeapOp) {
		b, _ := json.Marshal(ops)
		items = append(items, b)
	}
	for i := 2; i < len(args); i++ {
		if args[i] == "--random" {
			i++
			n, _ := strconv.Atoi(args[i])
			r := newRand(4242)
			for j := 0; j < n; j++ {
				if j == 7 || j == 32 {
					// LONG histories: a chain of several hundred clones, each extended (x = x.Clone().Op("+").Lit(i)), and sibling
					// clones of one original that each get dozens of items, their appends interleaved
					ops := []HeapOp{{Op: "New", K: 1 + r.Intn(4)}}
					ncells := 1
					if j == 7 {
						chain := 1
						for d := 0; d < 262+r.Intn(20); d++ {
							ops = append(ops, HeapOp{Op: "Clone", C: chain})
							ncells++
							chain = ncells
							ops = append(ops, HeapOp{Op: "App", C: chain, K: 1 + r.Intn(5)})
							if d%50 == 49 {
								// deep in the chain: two more clones of the same statement, each extended, then the chain goes on
								ops = append(ops, HeapOp{Op: "Clone", C: chain}, HeapOp{Op: "Clone", C: chain})
								ncells += 2
								ops = append(ops, HeapOp{Op: "App", C: ncells - 1, K: 1}, HeapOp{Op: "App", C: ncells, K: 2}, HeapOp{Op: "App", C: ncells - 1, K: 1})
							}
						}
					} else {
						sib := 3 + r.Intn(4)
						for c := 0; c < sib; c++ {
							ops = append(ops, HeapOp{Op: "Clone", C: 1})
							ncells++
						}
						for a := 0; a < 40+r.Intn(30); a++ {
							for c := 0; c < sib; c++ {
								ops = append(ops, HeapOp{Op: "App", C: 2 + c, K: 1 + r.Intn(5)})
							}
							if a == 35 {
								ops = append(ops, HeapOp{Op: "Clone", C: 1}, HeapOp{Op: "App", C: 1, K: 1})
								ncells++
							}
						}
					}
					add(ops)
					continue
				}
				ops := []HeapOp{{Op: "New", K: 1 + r.Intn(4)}}
				ncells := 1
				steps := 4 + r.Intn(10)
				for s := 0; s < steps; s++ {
					switch r.Intn(4) {
					case 0:
						ops = append(ops, HeapOp{Op: "Clone", C: 1 + r.Intn(ncells)})
						ncells++
					case 1:
						if r.Intn(3) == 0 {
							ops = append(ops, HeapOp{Op: "New", K: 1 + r.Intn(3)})
							ncells++
							continue
						}
						fallthrough
					default:
						ops = append(ops, HeapOp{Op: "App", C: 1 + r.Intn(ncells), K: 1 + r.Intn(5)})
					}
				}
				add(ops)
			}
			continue
		}
		readLines(args[i], func(line []byte) {
			if seen[string(line)] {
				return
			}
			seen[string(line)] = true
			var ops []HeapOp
			decodeTLCLine(line, &ops)
			add(ops)
		})
	}
	// the histories are executed by child processes (crash containment, see common.go)
	runContained(tw, "heap-batch", items, 1, 400)
	tw.Close(args[1])
}

func cmdHeapBatch(args []string) {
	// usage: heap-batch <trace part> <stats part> <first id>   (the histories as a JSON array on stdin)
	tw := NewTraceWriter(args[0])
	id, _ := strconv.Atoi(args[2])
	var hs [][]HeapOp
	in, _ := io.ReadAll(os.Stdin)
	if err := json.Unmarshal(in, &hs); err != nil {
		fatal(err)
	}
	for _, ops := range hs {
		ReplayHeap(tw, id, ops)
		id++
	}
	tw.CloseChild(args[1])
}
