package main

// Render family: executes the cases enumerated by MC_Render.tla (C13 lists, C16/C07 dicts,
// C15 comments) on the real library and writes one trace event per case.

import (
	"bytes"
	"encoding/json"
	"fmt"
	"go/ast"
	"go/format"
	"go/parser"
	"go/token"
	"math/rand"
	"reflect"
	"regexp"
	"sort"
	"strconv"
	"strings"

	"github.com/dave/jennifer/jen"
)

type Case struct {
	Kind    string          `json:"kind"`
	Name    string          `json:"name"`
	Kinds   []string        `json:"kinds"`
	Base    json.RawMessage `json:"base"`
	Variant json.RawMessage `json:"variant"`
	Tree    *Node           `json:"tree"`
	Idents  []string        `json:"idents"`
	Nsep    int             `json:"nsep"`
	Open    string          `json:"open"`
	Close   string          `json:"close"`
	Sep     string          `json:"sep"`
	Pairs   [][]string      `json:"pairs"`
	Live    int             `json:"live"`
	Known   string          `json:"known"`
	Cont    string          `json:"cont"`
	N       int             `json:"n"`
	Cl      string          `json:"cl"`
	Mode    string          `json:"mode"`
	Pos     int             `json:"pos"`
	Text    string          `json:"text"`
	Toks    []string        `json:"toks"`
	Alias   string          `json:"alias"`
}

// trees decodes a field that is either one tree or a sequence of trees (file body).
func trees(raw json.RawMessage) []*Node {
	if len(raw) == 0 {
		return nil
	}
	if raw[0] == '[' {
		var ts []*Node
		if err := json.Unmarshal(raw, &ts); err != nil {
			fatal(err)
		}
		return ts
	}
	var t Node
	if err := json.Unmarshal(raw, &t); err != nil {
		fatal(err)
	}
	return []*Node{&t}
}

type dictObs struct {
	ptr   uintptr
	keys  []interface{}
	texts []string
}

// watchDicts installs the Dict hooks; the returned function removes them and returns the observations.
func watchDicts() func() []dictObs {
	var obs []dictObs
	lastText := ""
	jen.VerifHookObj = func(point string, _ *jen.File, a, k interface{}) {
		ptr := reflect.ValueOf(a).Pointer()
		switch point {
		case "dict":
			obs = append(obs, dictObs{ptr: ptr})
		case "dictkey":
			// a key may itself contain a Dict that was rendered in between: attribute the key to the innermost open
			// observation of ITS dict, not to the last one
			for i := len(obs) - 1; i >= 0; i-- {
				if obs[i].ptr == ptr {
					obs[i].keys = append(obs[i].keys, k)
					obs[i].texts = append(obs[i].texts, lastText)
					break
				}
			}
		}
	}
	jen.VerifHook = func(point string, _ *jen.File, arg string) {
		if point == "dictkey" {
			lastText = arg // the text hook fires immediately before the object hook of the same key
		}
	}
	return func() []dictObs {
		jen.VerifHookObj = nil
		jen.VerifHook = nil
		return obs
	}
}

// fixupDicts rewrites every observed dict node for the model: items in the order the first pass visited
// them (dead pairs last), order = the live items sorted stably by the key texts the hook saw.
// It returns, per dict, the visiting order as original pair indices.
func fixupDicts(b *Builder, obs []dictObs) [][]int {
	orders := [][]int{}
	for _, o := range obs {
		info := b.Dicts[o.ptr]
		if info == nil {
			continue
		}
		order1 := []int{}
		seen := map[int]bool{}
		for _, k := range o.keys {
			if i, found := info.Keys[k]; found && !seen[i] {
				order1 = append(order1, i)
				seen[i] = true
			}
		}
		nlive := len(order1)
		for i := range info.Pairs {
			if !seen[i+1] {
				order1 = append(order1, i+1)
			}
		}
		items := []*Node{}
		for _, i := range order1 {
			items = append(items, info.Pairs[i-1])
		}
		info.Node.Items = items
		idx := []int{}
		for i := 0; i < nlive; i++ {
			idx = append(idx, i+1)
		}
		if len(o.texts) >= nlive {
			texts := o.texts
			sort.SliceStable(idx, func(x, y int) bool { return texts[idx[x]-1] < texts[idx[y]-1] })
		}
		for i := nlive; i < len(items); i++ {
			idx = append(idx, i+1)
		}
		info.Node.Order = idx
		orders = append(orders, order1[:nlive])
	}
	return orders
}

// renderBody builds a fresh File from the trees and renders it. Dict first-pass orders are recorded through the hook.
func renderBody(body []*Node, noformat bool, b *Builder) (renderResult, []dictObs) {
	return renderBodyWith(body, noformat, b, nil)
}

func renderBodyWith(body []*Node, noformat bool, b *Builder, setup func(*jen.File)) (renderResult, []dictObs) {
	if b == nil {
		b = NewBuilder()
	}
	var obs []dictObs
	res := safely(func() ([]byte, error) {
		f := jen.NewFile("main")
		f.NoFormat = noformat
		if setup != nil {
			setup(f)
		}
		for _, t := range body {
			f.Add(b.Code(t))
		}
		stop := watchDicts()
		defer func() { obs = stop() }()
		var buf bytes.Buffer
		err := f.Render(&buf)
		return buf.Bytes(), err
	})
	return res, obs
}

func resRec(raw, fm renderResult) Rec {
	return Rec{"status": raw.status, "raw": string(raw.out), "fstatus": fm.status, "out": string(fm.out)}
}

var identRe = regexp.MustCompile(`x[0-9]+`)

func listProjection(raw []byte, c *Case) (idents []string, nsep int, framed bool) {
	idents = []string{}
	// item names are x1..x9; they are looked up in the text (a Custom group without separator glues them together)
	idents = append(idents, identRe.FindAllString(string(raw), -1)...)
	body := string(raw)
	i := strings.Index(body, "\n\n")
	if i >= 0 {
		body = strings.TrimLeft(body[i:], "\n")
	}
	framed = strings.HasPrefix(body, c.Open) && strings.HasSuffix(body, c.Close) && len(body) >= len(c.Open)+len(c.Close)
	if framed && c.Sep != "" {
		inner := body[len(c.Open) : len(body)-len(c.Close)]
		nsep = strings.Count(inner, c.Sep)
	}
	return
}

func runC13(tw *TraceWriter, id int, c *Case) {
	base, variant := trees(c.Base), trees(c.Variant)
	rb, _ := renderBody(base, true, nil)
	fb, _ := renderBody(base, false, nil)
	rv, _ := renderBody(variant, true, nil)
	fv, _ := renderBody(variant, false, nil)
	// the same File rendered twice: the list must not change what is rendered next
	again := "same"
	func() {
		f := jen.NewFile("main")
		f.NoFormat = true
		f.Add(NewBuilder().Code(variant[0]))
		r1, r2 := renderFile(f), renderFile(f)
		if r1.status != r2.status || !bytes.Equal(r1.out, r2.out) {
			again = "differs"
		}
	}()
	// the caller's slice: a list built from items... must leave the slice alone - a second list built from the SAME slice
	// renders like one built from a fresh slice
	func() {
		defer func() { recover() }()
		var g *Node
		Walk(variant[0], func(n *Node) {
			if g == nil && n.K == "grp" && n.Name != "qual" {
				g = n
			}
		})
		if g == nil {
			return
		}
		ctor := func(codes []jen.Code) *jen.Statement {
			name := title(g.Name)
			in := []reflect.Value{}
			if g.Name == "custom" {
				in = append(in, reflect.ValueOf(jen.Options{Open: g.Open, Close: g.Close, Separator: g.Sep, Multi: g.Multi}))
			}
			fn := reflect.ValueOf(pkgFuncs[name])
			if !fn.IsValid() || !fn.Type().IsVariadic() {
				return nil
			}
			in = append(in, reflect.ValueOf(codes))
			return fn.CallSlice(in)[0].Interface().(*jen.Statement)
		}
		render := func(st *jen.Statement) string {
			f := jen.NewFile("main")
			f.NoFormat = true
			f.Add(st)
			r := renderFile(f)
			return r.status + ":" + string(r.out)
		}
		// a list whose items all render nothing is rendered with a File; THEN one of its (placeholder) items gets a token
		// and the same File renders it again: the item is there now
		if g.Name != "custom" || true {
			ph := jen.Null()
			items := []jen.Code{jen.Null(), ph, nil}
			if lst := ctor(items); lst != nil {
				f := jen.NewFile("main")
				f.NoFormat = true
				f.Add(jen.Id("h").Add(lst))
				renderFile(f)
				ph.Id("late")
				r2 := renderFile(f)
				if r2.status == "nil" && !strings.Contains(string(r2.out), "late") && again == "same" {
					again = "placeholder"
				}
			}
		}
		shared := NewBuilder().Codes(g.Items)
		// ... the same for Add(items...): two statements started from ONE slice that has spare capacity, each continued
		// with tokens of its own - the first one still ends in its own tokens
		if len(g.Items) > 0 {
			room := append(make([]jen.Code, 0, len(shared)+6), NewBuilder().Codes(g.Items)...)
			s1 := jen.Add(room...).Op("*").Id("tailOne")
			jen.Add(room...).Op("/").Id("tailTwo")
			f1 := jen.Add(NewBuilder().Codes(g.Items)...).Op("*").Id("tailOne")
			if render(s1) != render(f1) && again == "same" {
				again = "slice"
			}
		}
		if ctor(shared) == nil {
			return
		}
		second := ctor(shared)
		fresh := ctor(NewBuilder().Codes(g.Items))
		if render(second) != render(fresh) && again == "same" {
			again = "slice"
		}
	}()
	vid, vnsep, framed := listProjection(rv.out, c)
	tw.Emit(Rec{"ev": "c13", "id": id, "name": c.Name, "kinds": c.Kinds, "base": base[0], "variant": variant[0],
		"idents": c.Idents, "nsep": c.Nsep, "rb": resRec(rb, fb), "rv": resRec(rv, fv),
		"vidents": vid, "vnsep": vnsep, "framed": framed, "msg": rv.msg, "again": again})
	if len(c.Kinds) >= 2 {
		tw.Distinct("nontrivial_cases", c.Name+fmt.Sprint(c.Kinds))
	}
	if id <= 3 {
		tw.Sample(Rec{"construct": c.Name, "items": c.Kinds, "raw_variant": string(rv.out), "raw_base": string(rb.out)})
	}
}

// dict key / value expectations of the MC_Render dict universe, with package qualifiers normalised to paths
var keyText = map[string]string{"s1": "\"user\"", "s2": "\"user id\"", "s3": "\"user!\"", "a": "a", "ab": "ab", "a1": "a1", "10": "10", "9": "9", "1": "1", "f1": "f()", "f2": "f()", "qx": "x/d.K", "qy": "y/d.K", "sk1": "Circle{R: 1}", "sk2": "Square{A: 2}"}
var keyNo = map[string]string{"s1": "723", "s2": "724", "s3": "725", "a": "710", "ab": "711", "a1": "718", "10": "719", "9": "720", "1": "712", "f1": "713", "f2": "714", "qx": "715", "qy": "716", "null": "717", "sk1": "721", "sk2": "722"}

func expectedPairs(c *Case) []string {
	out := []string{}
	for _, p := range c.Pairs {
		if p[0] == "null" || p[1] == "null" {
			continue
		}
		v := keyNo[p[0]]
		if p[1] == "vq" {
			v = "x/d.V" + v
		}
		if p[1] == "vs" {
			v = "\"http://e.com/*" + v + "*/,}:{\""
		}
		switch p[1] {
		case "vf":
			v = "func() { g" + v + "() }"
		case "vd0":
			v = "{}"
		case "vd2":
			v = "{ m: " + v + ", n: 2, }"
		}
		out = append(out, keyText[p[0]]+" : "+v)
	}
	sort.Strings(out)
	return out
}

// dictProjection parses `var _ = T{...}` from a formatted file: normalised pairs, raw key texts, layout.
func dictProjection(src []byte) (pairs []string, keys []string, multiline bool, ok bool) {
	pairs, keys = []string{}, []string{}
	fset := token.NewFileSet()
	f, err := parser.ParseFile(fset, "", src, 0)
	if err != nil {
		return
	}
	imports := map[string]string{}
	for _, im := range f.Imports {
		p := strings.Trim(im.Path.Value, "\"")
		if im.Name != nil {
			imports[im.Name.Name] = p
		}
	}
	text := func(e ast.Expr, norm bool) string {
		if norm {
			if se, isSel := e.(*ast.SelectorExpr); isSel {
				if x, isId := se.X.(*ast.Ident); isId {
					if p, found := imports[x.Name]; found {
						return p + "." + se.Sel.Name
					}
				}
			}
		}
		var b bytes.Buffer
		format.Node(&b, fset, e)
		return normSpace(b.String()) // (values that run over several lines: the indentation is not part of the value)
	}
	var lit *ast.CompositeLit
	ast.Inspect(f, func(n ast.Node) bool {
		if cl, isCl := n.(*ast.CompositeLit); isCl && lit == nil {
			lit = cl
		}
		return true
	})
	if lit == nil {
		return
	}
	ok = true
	lines := map[int]bool{}
	for _, e := range lit.Elts {
		kv, isKV := e.(*ast.KeyValueExpr)
		if !isKV {
			pairs = append(pairs, "?"+text(e, false))
			continue
		}
		pairs = append(pairs, text(kv.Key, true)+" : "+text(kv.Value, true))
		keys = append(keys, text(kv.Key, false))
		lines[fset.Position(kv.Pos()).Line] = true
	}
	multiline = len(lit.Elts) > 0 && fset.Position(lit.Lbrace).Line != fset.Position(lit.Elts[0].Pos()).Line
	if len(lit.Elts) > 1 && len(lines) != len(lit.Elts) {
		multiline = false
	}
	sort.Strings(pairs)
	return
}

func runC16(tw *TraceWriter, id int, c *Case, repeats int) {
	body := []*Node{c.Tree}
	b := NewBuilder()
	setup := func(f *jen.File) {
		if strings.HasPrefix(c.Alias, "@") {
			f.PackagePrefix = c.Alias[1:]
		} else if c.Alias != "" {
			f.ImportAlias("x/d", c.Alias)
		}
	}
	rv, obs := renderBodyWith(body, true, b, setup)
	fv, _ := renderBodyWith(body, false, nil, setup)
	order1 := []int{}
	if os := fixupDicts(b, obs); len(os) >= 1 {
		order1 = os[0] // the outer Dict is entered first (keys that contain a Dict add observations of their own)
	}
	otree := c.Tree
	pairs, keys, multiline, parsed := dictProjection(fv.out)
	sorted := sort.StringsAreSorted(keys)
	// C07: same construction, same bytes - rebuild and render repeatedly (fresh objects, fresh maps)
	hashes := map[string]bool{Hash(rv.out): true}
	orders := map[string]bool{fmt.Sprint(order1): true}
	for i := 0; i < repeats; i++ {
		bb := NewBuilder()
		r2, o2 := renderBodyWith(body, true, bb, setup)
		hashes[Hash(r2.out)] = true
		for _, o := range o2 {
			ord := []int{}
			info := bb.Dicts[o.ptr]
			for _, k := range o.keys {
				ord = append(ord, info.Keys[k])
			}
			orders[fmt.Sprint(ord)] = true
		}
	}
	tw.Stats["dict_first_pass_orders_seen"] += len(orders)
	tw.Emit(Rec{"ev": "c16", "id": id, "alias": c.Alias, "pairs": c.Pairs, "live": c.Live, "known": c.Known,
		"otree": otree, "order1": order1,
		"rv": resRec(rv, fv), "expected": expectedPairs(c), "got": pairs, "parsed": parsed,
		"sorted": sorted, "multiline": multiline, "nhash": len(hashes), "norders": len(orders)})
	if c.Live >= 2 {
		tw.Distinct("nontrivial_cases", fmt.Sprint(c.Pairs))
	}
	if id <= 3 {
		tw.Sample(Rec{"pairs": c.Pairs, "output": string(fv.out), "first_pass_order": order1})
	}
}

func normSpace(s string) string { return strings.Join(strings.Fields(s), " ") }

func runC15(tw *TraceWriter, id int, c *Case) {
	base, variant := trees(c.Base), trees(c.Variant)
	rb, _ := renderBody(base, true, nil)
	fb, _ := renderBody(base, false, nil)
	// every other case adds its comment with Commentf (the text split between the format string and an argument)
	cb := NewBuilder()
	if id%2 == 1 {
		cb.Form = func(n *Node, first bool) string {
			if n.K == "cmt" {
				return "funcvariant"
			}
			return "stmt"
		}
	}
	rv, _ := renderBody(variant, true, cb)
	fv, _ := renderBody(variant, false, cb)
	found, style := false, ""
	want := normSpace(c.Text)
	for _, cm := range CommentTokens(fv.out) {
		if strings.Contains(normSpace(cm), want) {
			found = true
			if strings.HasPrefix(cm, "//") {
				style = "line"
			} else {
				style = "block"
			}
		}
	}
	wantStyle := "line"
	if strings.Contains(c.Text, "\n") {
		wantStyle = "block"
	}
	tw.Emit(Rec{"ev": "c15", "id": id, "cont": c.Cont, "mode": c.Mode, "pos": c.Pos, "cl": c.Cl,
		"base": base, "variant": variant, "rb": resRec(rb, fb), "rv": resRec(rv, fv),
		"ctb": CodeTokens(fb.out), "ctv": CodeTokens(fv.out), "found": found, "style": style, "wantstyle": wantStyle})
	tw.Distinct("nontrivial_cases", fmt.Sprint(c.Cont, c.N, c.Cl, c.Mode, c.Pos))
	if id <= 3 {
		tw.Sample(Rec{"container": c.Cont, "comment": c.Text, "output": string(fv.out)})
	}
}

// runC08 renders the same File three times (NoFormat and formatted) and the same Statement three times with one File.
func runC08(tw *TraceWriter, id int, c *Case) {
	mk := func(noformat bool) (*jen.File, *jen.Statement) {
		f := jen.NewFile("main")
		f.NoFormat = noformat
		s := NewBuilder().Stmt(c.Tree)
		f.Add(s)
		return f, s
	}
	fr, _ := mk(true)
	ff, _ := mk(false)
	rs := []Rec{}
	for i := 0; i < 3; i++ {
		rs = append(rs, resRec(renderFile(fr), renderFile(ff)))
	}
	_, st := mk(false)
	fs := jen.NewFile("main")
	ss := []string{}
	for i := 0; i < 3; i++ {
		r := safely(func() ([]byte, error) {
			var buf bytes.Buffer
			err := st.RenderWithFile(&buf, fs)
			return buf.Bytes(), err
		})
		ss = append(ss, r.status+":"+string(r.out))
	}
	tw.Emit(Rec{"ev": "c08", "id": id, "tree": c.Tree, "r1": rs[0], "r2": rs[1], "r3": rs[2], "s1": ss[0], "s2": ss[1], "s3": ss[2]})
	tw.Distinct("nontrivial_cases", fmt.Sprint(c.Kinds, rs[0]["raw"]))
	if id <= 3 {
		tw.Sample(Rec{"block_items": c.Kinds, "raw_first": rs[0]["raw"], "raw_second": rs[1]["raw"]})
	}
}

// runGoMini: the documented translation of a mini-AST (built by the specification) is rendered by the real
// library; its token stream must be the token stream the specification's independent unparser wrote.
func runGoMini(tw *TraceWriter, id int, c *Case) {
	rv, _ := renderBody([]*Node{c.Tree}, true, nil)
	toks := CodeTokens(rv.out)
	if len(toks) >= 3 && toks[0] == "package" {
		toks = toks[3:]
	}
	norm := []string{}
	for i, t := range toks {
		if t == ";" && (i == len(toks)-1 || toks[i+1] == "}" || toks[i+1] == ")") {
			continue
		}
		if t == "," && i+1 < len(toks) && (toks[i+1] == "}" || toks[i+1] == ")") {
			continue // a comma before a closing brace / parenthesis on a new line is optional (a multi-line Dict writes it)
		}
		norm = append(norm, t)
	}
	tw.Emit(Rec{"ev": "gomini", "id": id, "tree": c.Tree, "toks": c.Toks, "rtoks": norm, "rv": resRec(rv, rv)})
	tw.Distinct("nontrivial_cases", fmt.Sprint(c.Toks))
	if id <= 3 {
		tw.Sample(Rec{"program_tokens": c.Toks, "raw": string(rv.out)})
	}
}

// runC16Mutations: a Dict is rendered with a File, then one of its KEY statements is extended (the caller still holds it)
// so that its rendered text moves past another key, and the Dict is rendered again with the same File: the pairs must
// again be ordered by the CURRENT text of their keys - exactly as a freshly built Dict of that shape is.
func runC16Mutations(tw *TraceWriter, id0 int) int {
	shapes := [][]string{{"a", "a.b", "a.d"}, {"srv", "srv.Addr", "cfg"}, {"k", "k.x", "k.y", "k.z"}, {"f", "f.g"}}
	n := 0
	for si, keys := range shapes {
		for _, ext := range []string{"c", "zz", "Port"} {
			n++
			id := id0 + n
			tw.Traces++
			mk := func(extended bool) (*jen.File, []*jen.Statement) {
				d := jen.Dict{}
				ks := []*jen.Statement{}
				for i, k := range keys {
					parts := strings.Split(k, ".")
					st := jen.Id(parts[0])
					for _, p := range parts[1:] {
						st.Dot(p)
					}
					ks = append(ks, st)
					d[st] = jen.Lit(700 + i)
				}
				if extended {
					ks[0].Dot(ext)
				}
				f := jen.NewFile("main")
				f.Var().Id("_").Op("=").Id("T").Values(d)
				return f, ks
			}
			f, ks := mk(false)
			first := renderFile(f)
			ks[0].Dot(ext) // the key statement grows after the Dict was rendered
			second := renderFile(f)
			ff, _ := mk(true)
			fresh := renderFile(ff)
			pairs, keyTexts, multiline, parsed := dictProjection(second.out)
			fpairs, _, _, _ := dictProjection(fresh.out)
			// the structure as it is now, for the model
			items := []*Node{}
			order := []int{}
			texts := []string{}
			for i, k := range keys {
				parts := strings.Split(k, ".")
				if i == 0 {
					parts = append(parts, ext)
				}
				kn := stm(idn(parts[0]))
				for _, p := range parts[1:] {
					kn.Items = append(kn.Items, opn("."), idn(p))
				}
				items = append(items, &Node{K: "pair", Items: []*Node{kn, stm(lit(strconv.Itoa(700 + i)))}})
				texts = append(texts, strings.Join(parts, " . "))
				order = append(order, i+1)
			}
			sort.SliceStable(order, func(a, b int) bool { return texts[order[a]-1] < texts[order[b]-1] })
			otree := stm(kwn("var"), idn("_"), opn("="), idn("T"), grp("values", &Node{K: "dict", Items: items, Order: order}))
			rawf, _ := mk(true)
			rawf.NoFormat = true
			rv := renderFile(rawf)
			_ = first
			tw.Emit(Rec{"ev": "c16", "id": id, "alias": "", "pairs": [][]string{{"mutated", fmt.Sprint(si, ext)}}, "live": len(keys), "known": "",
				"otree": otree, "order1": []int{},
				"rv": resRec(rv, second), "expected": fpairs, "got": pairs, "parsed": parsed,
				"sorted": sort.StringsAreSorted(keyTexts), "multiline": multiline, "nhash": 1, "norders": 1})
			tw.Distinct("nontrivial_cases", fmt.Sprint("mutation", si, ext))
		}
	}
	// a value (or key) that is a Null() placeholder when the Dict is built and first rendered, and is filled afterwards:
	// the pair is omitted first and present - once, in key order - afterwards; Dict literal and DictFunc alike
	for variant := 0; variant < 4; variant++ {
		n++
		id := id0 + n
		tw.Traces++
		viaFunc := variant%2 == 1
		keyPlaceholder := variant >= 2
		mk := func() (*jen.File, *jen.Statement) {
			ph := jen.Null()
			fill := func(d jen.Dict) {
				d[jen.Id("a")] = jen.Lit(701)
				if keyPlaceholder {
					d[ph] = jen.Lit(702)
				} else {
					d[jen.Id("b")] = ph
				}
				d[jen.Id("c")] = jen.Lit(703)
			}
			var d jen.Dict
			if viaFunc {
				d = jen.DictFunc(fill)
			} else {
				d = jen.Dict{}
				fill(d)
			}
			f := jen.NewFile("main")
			f.Var().Id("_").Op("=").Id("T").Values(d)
			return f, ph
		}
		fillPh := func(ph *jen.Statement) {
			if keyPlaceholder {
				ph.Id("b")
			} else {
				ph.Lit(702)
			}
		}
		f, ph := mk()
		renderFile(f) // the placeholder is still empty
		safely(func() ([]byte, error) { return []byte(fmt.Sprintf("%#v", f)), nil })
		fillPh(ph)
		second := renderFile(f)
		ff, ph2 := mk()
		fillPh(ph2)
		fresh := renderFile(ff)
		rawf, ph3 := mk()
		fillPh(ph3)
		rawf.NoFormat = true
		rv := renderFile(rawf)
		pairs, keyTexts, multiline, parsed := dictProjection(second.out)
		fpairs, _, _, _ := dictProjection(fresh.out)
		// (the reference is what was put into the Dict, not another build through the same constructor)
		if want := []string{"a : 701", "b : 702", "c : 703"}; fmt.Sprint(fpairs) != fmt.Sprint(want) {
			fpairs = want
		}
		bkey, bval := stm(idn("b")), stm(&Node{K: "tok", T: "null"}, lit("702"))
		if keyPlaceholder {
			bkey, bval = stm(&Node{K: "tok", T: "null"}, idn("b")), stm(lit("702"))
		}
		items := []*Node{{K: "pair", Items: []*Node{stm(idn("a")), stm(lit("701"))}}, {K: "pair", Items: []*Node{bkey, bval}}, {K: "pair", Items: []*Node{stm(idn("c")), stm(lit("703"))}}}
		otree := stm(kwn("var"), idn("_"), opn("="), idn("T"), grp("values", &Node{K: "dict", Items: items, Order: []int{1, 2, 3}}))
		tw.Emit(Rec{"ev": "c16", "id": id, "alias": "", "pairs": [][]string{{"placeholder", fmt.Sprint(variant)}}, "live": 3, "known": "",
			"otree": otree, "order1": []int{},
			"rv": resRec(rv, second), "expected": fpairs, "got": pairs, "parsed": parsed,
			"sorted": sort.StringsAreSorted(keyTexts), "multiline": multiline, "nhash": 1, "norders": 1})
		tw.Distinct("nontrivial_cases", fmt.Sprint("placeholder", variant))
	}
	return n
}

// runC16Big: LARGE Dicts - dozens and hundreds of pairs, keys that are long and share a long prefix (routes, URLs, paths).
func runC16Big(tw *TraceWriter, id int) int {
	n := 0
	for _, np := range []int{40, 250, 700} {
		n++
		tw.Traces++
		keys := make([]string, np)
		for i := range keys {
			keys[i] = fmt.Sprintf("a/route/with/a/very/long/common/prefix/that/every/key/of/the/table/shares/%03d", i)
		}
		mk := func(noformat bool, seed int64) *jen.File {
			d := jen.Dict{}
			for _, i := range rand.New(rand.NewSource(seed)).Perm(np) {
				d[jen.Lit(keys[i])] = jen.Lit(1000 + i)
			}
			f := jen.NewFile("main")
			f.NoFormat = noformat
			f.Var().Id("_").Op("=").Id("T").Values(d)
			return f
		}
		hashes := map[string]bool{}
		var fv renderResult
		for k := 0; k < 6; k++ {
			fv = renderFile(mk(false, int64(k)))
			hashes[fv.status+Hash(fv.out)] = true
		}
		rv := renderFile(mk(true, 99))
		pairs, keyTexts, multiline, parsed := dictProjection(fv.out)
		expected := []string{}
		items := []*Node{}
		order := []int{}
		for i := 0; i < np; i++ {
			expected = append(expected, strconv.Quote(keys[i])+" : "+strconv.Itoa(1000+i))
			items = append(items, &Node{K: "pair", Items: []*Node{stm(lit(strconv.Quote(keys[i]))), stm(lit(strconv.Itoa(1000 + i)))}})
			order = append(order, i+1)
		}
		otree := stm(kwn("var"), idn("_"), opn("="), idn("T"), grp("values", &Node{K: "dict", Items: items, Order: order}))
		tw.Emit(Rec{"ev": "c16", "id": id + n, "alias": "", "pairs": [][]string{{"big", fmt.Sprint(np)}}, "live": np, "known": "",
			"otree": otree, "order1": []int{},
			"rv": resRec(rv, fv), "expected": expected, "got": pairs, "parsed": parsed,
			"sorted": sort.StringsAreSorted(keyTexts), "multiline": multiline, "nhash": len(hashes), "norders": 1})
		tw.Distinct("nontrivial_cases", fmt.Sprint("big", np))
	}
	return n
}

func cmdCases(args []string) {
	// usage: cases <out.ndjson> <stats.json> <cases.ndjson>... [--repeats n]
	tw := NewTraceWriter(args[0])
	repeats := 16
	seen := map[string]bool{}
	id := 0
	mutDone := false
	for i := 2; i < len(args); i++ {
		if args[i] == "--repeats" {
			i++
			fmt.Sscan(args[i], &repeats)
			continue
		}
		readLines(args[i], func(line []byte) {
			if seen[string(line)] {
				return
			}
			seen[string(line)] = true
			var c Case
			decodeTLCLine(line, &c)
			id++
			tw.Traces++
			switch c.Kind {
			case "c13":
				runC13(tw, id, &c)
			case "c16":
				if !mutDone {
					mutDone = true
					id += runC16Mutations(tw, id)
					id += runC16Big(tw, id)
				}
				runC16(tw, id, &c, repeats)
			case "c15":
				runC15(tw, id, &c)
			case "c08":
				runC08(tw, id, &c)
			case "gomini":
				runGoMini(tw, id, &c)
			default:
				fatal("unknown case kind " + c.Kind)
			}
		})
	}
	tw.Close(args[1])
}

func cloneNode(n *Node) *Node {
	b, err := json.Marshal(n)
	if err != nil {
		fatal(err)
	}
	var out Node
	if err := json.Unmarshal(b, &out); err != nil {
		fatal(err)
	}
	return &out
}
