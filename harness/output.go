package main

// Output family (C10): every fault placement enumerated by JenOutput.tla is executed on the real
// entry points with a recording writer double and a scratch directory.

import (
	"bufio"
	"bytes"
	"errors"
	"fmt"
	"io"
	"io/fs"
	"os"
	"path/filepath"
	"strconv"
	"strings"

	"github.com/dave/jennifer/jen"
)

type OutParams struct {
	Entry    string `json:"entry"`
	Valid    bool   `json:"valid"`
	NoFormat bool   `json:"noformat"`
	FailAt   int    `json:"failAt"`
	Target   string `json:"target"`
}

var errInjected = errors.New("verif: injected writer failure")

type wcall struct {
	N   int  `json:"n"`
	Err bool `json:"err"`
}

type wdouble struct {
	calls  []wcall
	failAt int
	full   bool // the failing call consumes all its bytes and reports the error together with the full count (write, then sync fails)
	buf    bytes.Buffer
}

func (w *wdouble) Write(p []byte) (int, error) {
	k := len(w.calls) + 1
	if k == w.failAt {
		w.calls = append(w.calls, wcall{len(p), true})
		if w.full {
			w.buf.Write(p)
			return len(p), errInjected
		}
		return 0, errInjected
	}
	w.calls = append(w.calls, wcall{len(p), false})
	w.buf.Write(p)
	return len(p), nil
}

// small pools of trees: file bodies and fragments, syntactically valid or not
func lit(v string) *Node                    { return &Node{K: "tok", T: "lit", V: v} }
func idn(v string) *Node                    { return &Node{K: "tok", T: "id", V: v} }
func opn(v string) *Node                    { return &Node{K: "tok", T: "op", V: v} }
func kwn(v string) *Node                    { return &Node{K: "tok", T: "kw", V: v} }
func stm(items ...*Node) *Node              { return &Node{K: "stmt", Items: items} }
func grp(name string, items ...*Node) *Node { return &Node{K: "grp", Name: name, Items: items} }

// bigDecls: n declarations var generatedValueI = I (a File of several thousand top-level items renders far more than 64 KiB)
func bigDecls(n int) []*Node {
	out := make([]*Node, 0, n)
	for i := 0; i < n; i++ {
		out = append(out, stm(kwn("var"), idn("generatedValue"+strconv.Itoa(i)), opn("="), lit(strconv.Itoa(i))))
	}
	return out
}

// pools of trees: file bodies and fragments, syntactically valid or not; every fourth one is LARGE (thousands of items,
// output of some 200 KiB: more than any buffer or block size a library would pick)
func outputBodies(valid bool, k int) []*Node {
	if k%4 == 2 {
		if valid {
			return append(bigDecls(6000), stm(kwn("var"), idn("_"), opn("="), grp("qual", &Node{K: "tok", T: "pkg", V: "x/d"}, idn("V"))))
		}
		return append(bigDecls(1200), stm(kwn("var"), idn("a"), opn("="), opn("="), lit("1")))
	}
	if valid {
		pool := [][]*Node{
			{stm(kwn("var"), idn("a"), opn("="), lit("1"))},
			{stm(kwn("func"), idn("f"), grp("params"), grp("block", stm(idn("x"), opn(":="), grp("qual", &Node{K: "tok", T: "pkg", V: "fmt"}, idn("Sprint")), grp("call", lit("\"s\""))), stm(grp("return"))))},
			{stm(kwn("type"), idn("T"), grp("struct", stm(idn("A"), idn("int")))), stm(kwn("var"), idn("_"), opn("="), grp("qual", &Node{K: "tok", T: "pkg", V: "x/d"}, idn("V")))},
			{},
		}
		return pool[k%len(pool)]
	}
	pool := [][]*Node{
		{stm(idn("a"), idn("b"))},
		{stm(kwn("func"), idn("f"), grp("params"), opn("{"))},
		{stm(kwn("var"), idn("a"), opn("="), opn("="), lit("1"))},
		{stm(kwn("var"), idn("a"), opn("="), lit("1")), stm(grp("case", stm(idn("x"))))},
	}
	return pool[k%len(pool)]
}

func outputFragment(valid bool, k int) *Node {
	if k%4 == 2 {
		items := []*Node{}
		for i := 0; i < 6000; i++ {
			items = append(items, stm(idn("x"+strconv.Itoa(i)), opn("++")))
		}
		if !valid {
			items = append(items, stm(idn("a"), idn("b")))
		}
		return stm(grp("block", items...))
	}
	if valid {
		pool := []*Node{
			stm(idn("x"), opn(":="), idn("f"), grp("call", lit("1"))),
			stm(grp("if", stm(idn("a"))), grp("block", stm(grp("return")))),
			stm(kwn("var"), idn("a"), idn("int")),
			stm(grp("block", stm(idn("x"), opn("++")))),
		}
		return pool[k%len(pool)]
	}
	pool := []*Node{
		stm(idn("x"), opn(":="), opn(":="), lit("1")),
		stm(grp("if", stm(idn("a"))), grp("block", stm(grp("return"))), opn("}")),
		stm(idn("a"), idn("b"), idn("c")),
		stm(grp("block", stm(idn("x"), opn("++"))), opn("{")),
	}
	return pool[k%len(pool)]
}

// oldContent: what an existing target holds before the call under test (for every second tree it is LONGER than the new
// output: a generator whose output got shorter since the last run)
var oldContent = "OLD CONTENT\n"

func fsState(path string, expected []byte) string {
	st, err := os.Stat(path)
	if err != nil {
		return "absent"
	}
	if st.IsDir() {
		return "dir"
	}
	b, err := os.ReadFile(path)
	if err != nil {
		return "other"
	}
	if string(b) == oldContent {
		return "old"
	}
	if expected != nil && bytes.Equal(b, expected) {
		return "new"
	}
	return "other:" + Hash(b)
}

func runOutputCase(tw *TraceWriter, id int, p OutParams, variant int, scratch string) {
	tw.Traces++
	isFile := p.Entry == "File.Render" || p.Entry == "File.Save"
	// build the object under test and an identical twin used to learn the fault-free result
	type built struct {
		file *jen.File
		stmt *jen.Statement
		grp  *jen.Group
	}
	// staged: the File under test is printed once (as a generator does to show a preview) BEFORE its front matter is
	// complete; what the call under test then writes is still exactly the output of the File as it is at that moment -
	// the same bytes as for the twin that was built in one go
	staged := false
	buildFile := func(noformat, staged bool) *jen.File {
		f := jen.NewFile("main")
		f.NoFormat = noformat
		front := func() {
			f.HeaderComment("Code generated by verif. DO NOT EDIT.")
			f.HeaderComment("//go:build linux")
			f.PackageComment("Package main is a test.")
			f.CanonicalPath = "example.com/canon"
			f.CgoPreamble("#include <stdio.h>")
			f.Anon("x/side")
		}
		if (variant/4)%2 == 1 {
			// every file-level feature at once: whatever they contribute must go through the same pipeline
			f.PackagePrefix = "pkg"
			f.ImportAlias("x/d", "dee")
			if !staged {
				front()
			}
		}
		for _, t := range outputBodies(p.Valid, variant) {
			f.Add(NewBuilder().Code(t))
		}
		if staged && (variant/4)%2 == 1 {
			func() {
				defer func() { recover() }()
				var preview bytes.Buffer
				f.Render(&preview)
			}()
			front()
		}
		return f
	}
	build := func(noformat bool) built {
		var b built
		if isFile {
			b.file = buildFile(noformat, staged)
			return b
		}
		frag := outputFragment(p.Valid, variant)
		if p.Entry == "Group.Render" || p.Entry == "Group.RenderWithFile" {
			// a *Group is obtained from a ...Func callback
			jen.CustomFunc(jen.Options{}, func(g *jen.Group) {
				g.Add(NewBuilder().Code(frag))
				b.grp = g
			})
			return b
		}
		b.stmt = NewBuilder().Stmt(frag)
		return b
	}
	invoke := func(b built, w io.Writer, target string) (status string, sameErr bool) {
		var err error
		func() {
			defer func() {
				if r := recover(); r != nil {
					status = "panic"
				}
			}()
			switch p.Entry {
			case "File.Render":
				err = b.file.Render(w)
			case "File.Save":
				err = b.file.Save(target)
			case "Statement.Render":
				err = b.stmt.Render(w)
			case "Statement.RenderWithFile":
				err = b.stmt.RenderWithFile(w, jen.NewFile("main"))
			case "Group.Render":
				err = b.grp.Render(w)
			case "Group.RenderWithFile":
				err = b.grp.RenderWithFile(w, jen.NewFile("main"))
			}
		}()
		if status == "panic" {
			return
		}
		var pe *fs.PathError
		switch {
		case err == nil:
			status = "nil"
		case errors.Is(err, errInjected):
			status, sameErr = "writeerror", true
		case errors.As(err, &pe):
			status = "fserror"
		default:
			status = "fmterror"
		}
		return
	}
	// fault-free twin: what the rendered output is, and whether the raw rendering is formattable
	twin := build(p.NoFormat)
	tw0 := &wdouble{}
	dir := filepath.Join(scratch, fmt.Sprintf("c%d", id))
	os.MkdirAll(dir, 0755)
	defer os.RemoveAll(dir)
	twinStatus, _ := invoke(twin, tw0, filepath.Join(dir, "twin.go"))
	expected := tw0.buf.Bytes()
	if p.Entry == "File.Save" {
		// "the saved file contains exactly the rendered output": the reference is what Render writes for an identically
		// built File, not what another Save leaves behind
		var rb bytes.Buffer
		if err := build(p.NoFormat).file.Render(&rb); err == nil {
			expected = rb.Bytes()
		} else {
			expected, _ = os.ReadFile(filepath.Join(dir, "twin.go"))
		}
	}
	// independent oracle: is the raw rendering formattable, and what is the formatted output?  (go/format on a NoFormat
	// render; for fragments the NoFormat render of a File that holds only the fragment, minus the package clause)
	fmtok := true
	if isFile {
		rawTwin := build(true)
		var rb bytes.Buffer
		rawTwin.file.Render(&rb)
		fm, ok := Gofmt(rb.Bytes())
		fmtok = ok
		if ok && !p.NoFormat && (p.Entry == "File.Render" || p.Entry == "File.Save") {
			expected = fm
		}
	} else {
		raw := rawOf(NewBuilder().Stmt(outputFragment(p.Valid, variant)))
		const hdr = "nil:package main\n\n\n"
		if strings.HasPrefix(raw, hdr) {
			fm, ok := Gofmt([]byte(raw[len(hdr):]))
			fmtok = ok
			if ok {
				expected = fm
			}
		} else {
			fmtok = twinStatus == "nil"
		}
	}
	// the call under test
	target := ""
	before := "absent"
	switch p.Target {
	case "absent":
		target = filepath.Join(dir, "out.go")
	case "present":
		target = filepath.Join(dir, "out.go")
		oldContent = "OLD CONTENT\n"
		if variant%2 == 1 {
			oldContent += strings.Repeat("// a line of the previous, longer output\n", len(expected)/40+8)
		}
		os.WriteFile(target, []byte(oldContent), 0644)
		before = "old"
	case "nearsame":
		// the target already holds the output except for white space at its end
		target = filepath.Join(dir, "out.go")
		near := append(bytes.TrimRight(append([]byte{}, expected...), "\n"), []byte("\n\n \n")...)
		if variant%2 == 1 {
			near = bytes.TrimRight(append([]byte{}, expected...), "\n")
		}
		if variant%4 == 3 {
			// ... or differs only in its line ends (a checkout with CRLF): Save still has to write exactly the output
			near = bytes.ReplaceAll(append([]byte{}, expected...), []byte("\n"), []byte("\r\n"))
		}
		os.WriteFile(target, near, 0644)
		before = fsState(target, nil)
	case "isdir":
		target = filepath.Join(dir, "out.go")
		os.Mkdir(target, 0755)
		before = "dir"
	case "missingdir":
		target = filepath.Join(dir, "missing", "out.go")
	case "parentisfile":
		os.WriteFile(filepath.Join(dir, "plain"), []byte("x"), 0644)
		target = filepath.Join(dir, "plain", "out.go")
	}
	staged = isFile && variant%2 == 1 // (the twin and the oracle above were built in one go)
	obj := build(p.NoFormat)
	w := &wdouble{failAt: p.FailAt, full: variant%4 == 1}
	status, sameErr := invoke(obj, w, target)
	after := "absent"
	if p.Entry == "File.Save" {
		after = fsState(target, expected)
	}
	// the same call with writers from the standard library as the caller's writer (a *bytes.Buffer that already holds
	// data, a bufio.Writer, a strings.Builder): a failed render leaves them exactly as they were, a successful one appends
	// exactly the output
	stdbuf := "ok"
	if p.Entry != "File.Save" && p.FailAt == 0 {
		check := func(name string, before string, run func() (string, string)) {
			st, got := run()
			switch {
			case st == "nil" && got != before+string(expected):
				stdbuf = "wrong " + name
			case st != "nil" && got != before:
				stdbuf = "dirty " + name
			}
		}
		check("bytes.Buffer", "PRE", func() (string, string) {
			bb := bytes.NewBufferString("PRE")
			st, _ := invoke(build(p.NoFormat), bb, "")
			return st, bb.String()
		})
		check("strings.Builder", "", func() (string, string) {
			var sb strings.Builder
			st, _ := invoke(build(p.NoFormat), &sb, "")
			return st, sb.String()
		})
		check("bufio.Writer", "", func() (string, string) {
			var under bytes.Buffer
			bw := bufio.NewWriterSize(&under, 16)
			st, _ := invoke(build(p.NoFormat), bw, "")
			bw.Flush()
			return st, under.String()
		})
	}
	// canary: after the call under test (failed or not) an unrelated valid fragment and an unrelated valid File
	// must still render exactly as they always do (no state of a failed render leaks into later renders)
	canary := true
	for k := 0; k < 3; k++ {
		var b1, b2 bytes.Buffer
		e1 := jen.Id("canary").Op(":=").Lit(k).Render(&b1)
		cf := jen.NewFile("main")
		cf.Var().Id("canary").Op("=").Lit(k)
		e2 := cf.Render(&b2)
		if e1 != nil || e2 != nil || b1.String() != fmt.Sprintf("canary := %d", k) || b2.String() != fmt.Sprintf("package main\n\nvar canary = %d\n", k) {
			canary = false
		}
	}
	wroteErr := false
	okbytes := 0
	for _, c := range w.calls {
		if c.Err {
			wroteErr = true
		} else {
			okbytes += c.N
		}
	}
	calls := w.calls
	if calls == nil {
		calls = []wcall{}
	}
	tw.Emit(Rec{"ev": "out", "id": id, "p": p, "fmtok": fmtok, "status": status, "sameerr": sameErr,
		"writes": calls, "ncalls": len(calls), "wroteerr": wroteErr,
		"goteq": bytes.Equal(w.buf.Bytes(), expected), "gotlen": okbytes, "explen": len(expected),
		"before": before, "after": after, "twin": twinStatus, "canary": canary, "stdbuf": stdbuf})
	tw.Distinct("fault_placements", fmt.Sprint(p))
	tw.Distinct("placements_x_trees", fmt.Sprint(p, variant))
	if id <= 3 {
		tw.Sample(Rec{"params": p, "status": status, "writes": calls, "fs_before": before, "fs_after": after})
	}
}

func cmdOutput(args []string) {
	// usage: output <out.ndjson> <stats.json> <cases.ndjson> [--variants n]
	tw := NewTraceWriter(args[0])
	variants := 4
	scratch, err := os.MkdirTemp("", "verif-out-")
	if err != nil {
		fatal(err)
	}
	defer os.RemoveAll(scratch)
	id := 0
	seen := map[string]bool{}
	for i := 2; i < len(args); i++ {
		if args[i] == "--variants" {
			i++
			fmt.Sscan(args[i], &variants)
			continue
		}
		readLines(args[i], func(line []byte) {
			if seen[string(line)] {
				return
			}
			seen[string(line)] = true
			var p OutParams
			decodeTLCLine(line, &p)
			for v := 0; v < variants; v++ {
				id++
				runOutputCase(tw, id, p, v, scratch)
			}
		})
	}
	tw.Close(args[1])
}
