package main

// Recipe trees: the JSON form of the specification's Code datatype (spec/Jen.tla) and
// the interpreter that builds them with the real DSL.

import (
	"encoding/json"
	"fmt"
	"reflect"
	"strconv"
	"strings"

	"github.com/dave/jennifer/jen"
)

// Node is one Code value of the model.
type Node struct {
	K      string            `json:"k"`               // tok stmt grp dict pair cmt tag nil
	T      string            `json:"t,omitempty"`     // token type: id op kw lit pkg null layout
	V      string            `json:"v"`               // text
	Name   string            `json:"name,omitempty"`  // group name (lower case) or "custom"
	Items  []*Node           `json:"items,omitempty"` // children
	Open   string            `json:"open"`
	Close  string            `json:"close"`
	Sep    string            `json:"sep"`
	Multi  bool              `json:"multi"`
	St     string            `json:"st,omitempty"`    // comment style (model side)
	Order  []int             `json:"order,omitempty"` // dict: indices sorted by key text (1-based)
	M      map[string]string `json:"m,omitempty"`     // tag map
	Form   string            `json:"form,omitempty"`  // func | stmt | group | funcvariant
	Cb     int               `json:"cb,omitempty"`    // callback id (Func variants)
	GoVal  interface{}       `json:"-"`               // literal value for Lit() (corpus translator); V holds its rendered text
	IsRune bool              `json:"-"`
	Real   bool              `json:"-"` // own-test dumps: Open/Close/Sep/Multi are the fields of the real Group (written as ropen ...)
}

// Builder interprets trees. Form selects the API form per node (C14); Callback, when set,
// is invoked from inside every user callback (…Func, Do, DictFunc, LitFunc).
type Builder struct {
	Form     func(n *Node, first bool) string
	Callback func(what string)
	// DoSplit, when set, says for a statement node how many of its leading items are written by a Do callback
	// (jen.Do(f) / s.Do(f) / g.Do(f)); the remaining items are chained on the statement that Do returns.  -1: no Do.
	DoSplit func(n *Node) int
	Dicts   map[uintptr]*DictInfo // reflect pointer of every Dict built -> info
}

type DictInfo struct {
	Node  *Node
	Pairs []*Node             // the pair nodes in their original order
	Keys  map[interface{}]int // key Code (pointer) -> 1-based index into Pairs
}

func NewBuilder() *Builder {
	return &Builder{Dicts: map[uintptr]*DictInfo{}}
}

func title(s string) string {
	if s == "" {
		return s
	}
	return strings.ToUpper(s[:1]) + s[1:]
}

func (b *Builder) form(n *Node, first bool) string {
	if n.Form != "" {
		return n.Form
	}
	if b.Form != nil {
		return b.Form(n, first)
	}
	return "stmt"
}

func (b *Builder) cb(what string) {
	if b.Callback != nil {
		b.Callback(what)
	}
}

// Code builds a Code value for a node (nil for a nil node).
func (b *Builder) Code(n *Node) jen.Code {
	switch n.K {
	case "nil":
		return typedNil(n)
	case "stmt":
		return b.Stmt(n)
	case "dict":
		return b.Dict(n)
	default:
		// a bare token / group / comment / tag is always carried by a one-item statement
		return b.Stmt(&Node{K: "stmt", Items: []*Node{n}})
	}
}

// typedNil: a nil item is the untyped nil, or a nil *Statement / *Group held in a Code (T = "stmt" / "grp"): all of them
// are legal items that render nothing.
func typedNil(n *Node) jen.Code {
	switch n.T {
	case "stmt":
		return (*jen.Statement)(nil)
	case "grp":
		return (*jen.Group)(nil)
	}
	return nil
}

// Codes builds the children of a group.
func (b *Builder) Codes(items []*Node) []jen.Code {
	out := make([]jen.Code, 0, len(items))
	for _, c := range items {
		out = append(out, b.Code(c))
	}
	return out
}

func (b *Builder) Dict(n *Node) jen.Dict {
	d := jen.Dict{}
	info := &DictInfo{Node: n, Pairs: append([]*Node{}, n.Items...), Keys: map[interface{}]int{}}
	for i, p := range info.Pairs {
		k := b.Code(p.Items[0])
		v := b.Code(p.Items[1])
		d[k] = v
		info.Keys[k] = i + 1
	}
	b.Dicts[reflect.ValueOf(d).Pointer()] = info
	return d
}

// LitValue maps the text of a model literal to a Go value for Lit().
func LitValue(v string) interface{} {
	if v == "true" {
		return true
	}
	if v == "false" {
		return false
	}
	if strings.HasPrefix(v, "\"") || strings.HasPrefix(v, "`") {
		s, err := strconv.Unquote(v)
		if err != nil {
			panic("bad literal text " + v)
		}
		return s
	}
	if i, err := strconv.Atoi(v); err == nil {
		return i
	}
	if f, err := strconv.ParseFloat(v, 64); err == nil {
		return f
	}
	panic("unsupported literal text " + v)
}

var keywordMethod = map[string]string{
	"break": "Break", "default": "Default", "func": "Func", "select": "Select", "chan": "Chan", "else": "Else",
	"const": "Const", "fallthrough": "Fallthrough", "type": "Type", "continue": "Continue", "var": "Var",
	"goto": "Goto", "defer": "Defer", "go": "Go", "range": "Range",
}

// call invokes method name on recv (a *Statement or *Group) or, when recv is invalid,
// the package function of that name.
func call(recv reflect.Value, name string, args ...interface{}) *jen.Statement {
	var fn reflect.Value
	if recv.IsValid() {
		fn = recv.MethodByName(name)
		if !fn.IsValid() {
			panic(apiMissing{name, recv.Type().String()})
		}
	} else {
		f, ok := pkgFuncs[name]
		if !ok {
			panic(apiMissing{name, "package"})
		}
		fn = reflect.ValueOf(f)
	}
	ft := fn.Type()
	in := []reflect.Value{}
	for i, a := range args {
		var pt reflect.Type
		if ft.IsVariadic() && i >= ft.NumIn()-1 {
			pt = ft.In(ft.NumIn() - 1).Elem()
		} else {
			pt = ft.In(i)
		}
		if a == nil {
			in = append(in, reflect.Zero(pt))
		} else {
			in = append(in, reflect.ValueOf(a))
		}
	}
	out := fn.Call(in)
	return out[0].Interface().(*jen.Statement)
}

type apiMissing struct{ name, where string }

func (a apiMissing) Error() string { return "API missing: " + a.name + " on " + a.where }

// Stmt builds a statement by chaining one DSL call per item. The first item may be built
// by the package function (form "func") or by a method on an empty statement.
func (b *Builder) Stmt(n *Node) *jen.Statement {
	if k := b.doSplit(n); k >= 0 {
		f := func(s *jen.Statement) {
			b.cb("Do")
			b.stmtOn(s, n.Items[:k], false)
		}
		var s *jen.Statement
		if k%2 == 0 {
			s = jen.Do(f) // the package function
		} else {
			s = jen.Add().Do(f) // the method of a statement
		}
		return b.stmtOn(s, n.Items[k:], false)
	}
	return b.stmtOn(nil, n.Items, true)
}

func (b *Builder) doSplit(n *Node) int {
	if b.DoSplit == nil || n.K != "stmt" {
		return -1
	}
	k := b.DoSplit(n)
	if k > len(n.Items) {
		k = len(n.Items)
	}
	// x.Sel is one call, Dot(name): never split between the delimiter and the identifier
	if k > 0 && k < len(n.Items) && n.Items[k-1].K == "tok" && n.Items[k-1].T == "delim" && n.Items[k-1].V == "." {
		k++
	}
	return k
}

// stmtOn chains one DSL call per item on s (nil: the statement is started by the first item; atStart: the first item may
// be built by the package function).
func (b *Builder) stmtOn(s *jen.Statement, items []*Node, atStart bool) *jen.Statement {
	for i := 0; i < len(items); i++ {
		it := items[i]
		first := i == 0 && atStart
		// x.Sel is built with Dot(name): a "." delimiter token followed by an identifier
		if it.K == "tok" && it.T == "delim" && it.V == "." && i+1 < len(items) && items[i+1].K == "tok" && items[i+1].T == "id" {
			if s == nil {
				s = jen.Add()
			}
			s.Dot(items[i+1].V)
			i++
			continue
		}
		var recv reflect.Value
		if s == nil {
			if f := b.form(it, first); f != "func" && f != "helperfunc" {
				s = jen.Add()
				recv = reflect.ValueOf(s)
			}
		} else {
			recv = reflect.ValueOf(s)
		}
		r := b.item(recv, it)
		if s == nil {
			s = r
		}
	}
	if s == nil {
		s = jen.Add()
	}
	return s
}

// GroupItem appends node it to a *Group through the Group-method form and returns the new statement.
func (b *Builder) GroupItem(g *jen.Group, it *Node) *jen.Statement {
	if it.K == "stmt" {
		if k := b.doSplit(it); k >= 0 {
			// g.Do(f): the callback writes the leading items, the rest is chained on the statement g.Do returns - which
			// is the statement that was appended to the group
			s := g.Do(func(s *jen.Statement) {
				b.cb("Do")
				b.stmtOn(s, it.Items[:k], false)
			})
			return b.stmtOn(s, it.Items[k:], false)
		}
		// first item through the group method, the rest chained on the returned statement
		if len(it.Items) == 0 {
			return g.Add()
		}
		s := b.item(reflect.ValueOf(g), it.Items[0])
		for _, x := range it.Items[1:] {
			b.item(reflect.ValueOf(s), x)
		}
		return s
	}
	if it.K == "nil" {
		return g.Add(typedNil(it))
	}
	return b.item(reflect.ValueOf(g), it)
}

// item performs the DSL call for one item on recv (invalid recv = package function).
func (b *Builder) item(recv reflect.Value, it *Node) *jen.Statement {
	switch it.K {
	case "tok":
		switch it.T {
		case "id":
			if b.Form != nil && it.Form == "" && it.V != "" && strings.HasPrefix(b.Form(it, false), "helper") {
				return call(recv, title(it.V)) // the dedicated helper of a predeclared identifier: Int(), String(), Err() ...
			}
			return call(recv, "Id", it.V)
		case "op":
			if it.V == "" {
				return call(recv, "Empty")
			}
			return call(recv, "Op", it.V)
		case "kw":
			m, ok := keywordMethod[it.V]
			if !ok {
				panic("no keyword method for " + it.V)
			}
			return call(recv, m)
		case "delim":
			return call(recv, "Op", it.V)
		case "lit":
			if it.GoVal != nil {
				if b.Form != nil && it.Form == "" && b.Form(it, false) == "funcvariant" {
					v := it.GoVal
					if it.IsRune {
						return call(recv, "LitRuneFunc", func() rune { b.cb("LitRuneFunc"); return v.(rune) })
					}
					return call(recv, "LitFunc", func() interface{} { b.cb("LitFunc"); return v })
				}
				if it.IsRune {
					return call(recv, "LitRune", it.GoVal)
				}
				return call(recv, "Lit", it.GoVal)
			}
			if it.Form == "funcvariant" {
				v := LitValue(it.V)
				return call(recv, "LitFunc", func() interface{} { b.cb("LitFunc"); return v })
			}
			return call(recv, "Lit", LitValue(it.V))
		case "null":
			return call(recv, "Null")
		case "layout":
			return call(recv, "Line")
		}
		panic("bad token type " + it.T)
	case "cmt":
		if b.Form != nil && b.Form(it, false) == "funcvariant" {
			// Commentf: the text arrives partly through the format string, partly through arguments
			cut := len(it.V) / 2
			for cut > 0 && cut < len(it.V) && it.V[cut]&0xC0 == 0x80 {
				cut++ // not inside a UTF-8 sequence
			}
			return call(recv, "Commentf", strings.ReplaceAll(it.V[:cut], "%", "%%")+"%s", it.V[cut:])
		}
		return call(recv, "Comment", it.V)
	case "tag":
		return call(recv, "Tag", it.M)
	case "nil":
		if c := typedNil(it); c != nil {
			return call(recv, "Add", c)
		}
		return call(recv, "Add", nil)
	case "stmt":
		return call(recv, "Add", b.Stmt(it))
	case "dict":
		return call(recv, "Add", b.Dict(it))
	case "grp":
		switch it.Name {
		case "qual":
			return call(recv, "Qual", it.Items[0].V, it.Items[1].V)
		case "custom":
			o := jen.Options{Open: it.Open, Close: it.Close, Separator: it.Sep, Multi: it.Multi}
			if b.form(it, false) == "funcvariant" {
				return call(recv, "CustomFunc", o, b.groupFunc(it))
			}
			args := []interface{}{o}
			for _, c := range b.Codes(it.Items) {
				args = append(args, c)
			}
			return call(recv, "Custom", args...)
		}
		name := title(it.Name)
		if b.form(it, false) == "funcvariant" {
			return call(recv, name+"Func", b.groupFunc(it))
		}
		args := []interface{}{}
		for _, c := range b.Codes(it.Items) {
			args = append(args, c)
		}
		return call(recv, name, args...)
	}
	panic(fmt.Sprintf("bad node kind %q", it.K))
}

// groupFunc is the callback of a …Func variant: it adds the children through the Group's own methods.
func (b *Builder) groupFunc(it *Node) func(*jen.Group) {
	return func(g *jen.Group) {
		b.cb(it.Name + "Func")
		for _, c := range it.Items {
			if c.K == "stmt" || c.K == "nil" {
				b.GroupItem(g, c)
			} else if c.K == "dict" {
				g.Add(b.Dict(c))
			} else {
				b.GroupItem(g, c)
			}
		}
	}
}

// Walk visits every node.
func Walk(n *Node, f func(*Node)) {
	if n == nil {
		return
	}
	f(n)
	for _, c := range n.Items {
		Walk(c, f)
	}
}

// Syms collects symbol -> path for every qualified identifier in the trees.
func Syms(trees []*Node, into map[string]string) {
	for _, t := range trees {
		Walk(t, func(n *Node) {
			if n.K == "grp" && n.Name == "qual" && len(n.Items) == 2 {
				into[n.Items[1].V] = n.Items[0].V
			}
		})
	}
}

// MarshalJSON writes exactly the fields the specification reads for each kind (TLC fails on
// JSON null and on missing record fields).
func (n *Node) MarshalJSON() ([]byte, error) {
	items := n.Items
	if items == nil {
		items = []*Node{}
	}
	var r Rec
	switch n.K {
	case "tok":
		r = Rec{"k": "tok", "t": n.T, "v": n.V}
	case "stmt":
		r = Rec{"k": "stmt", "items": items}
	case "grp":
		r = Rec{"k": "grp", "name": n.Name, "items": items}
		if n.Name == "custom" {
			r["open"], r["close"], r["sep"], r["multi"] = n.Open, n.Close, n.Sep, n.Multi
		}
		if n.Real {
			r["ropen"], r["rclose"], r["rsep"], r["rmulti"] = n.Open, n.Close, n.Sep, n.Multi
		}
	case "dict":
		o := n.Order
		if o == nil {
			o = []int{}
		}
		r = Rec{"k": "dict", "items": items, "order": o}
	case "pair":
		r = Rec{"k": "pair", "items": items}
	case "cmt":
		r = Rec{"k": "cmt", "v": n.V, "st": n.St}
	case "tag":
		r = Rec{"k": "tag", "v": n.V}
		if n.M != nil {
			r["m"] = n.M
		}
	case "nil":
		r = Rec{"k": "nil"}
	default:
		return nil, fmt.Errorf("bad node kind %q", n.K)
	}
	if n.Form != "" {
		r["form"] = n.Form
	}
	return json.Marshal(r)
}
