package main

// The repository's own examples and test-case tables (executed by cmd/ownrun against the tree under test): every
// value they build is dumped as it is stored (jen.VerifDump) and converted here into the specification's Code
// datatype, so that TLC can check that Jen!R / Jen!RenderFile reproduce the raw bytes the real library renders for
// it - the specification is validated against everything the repository documents and tests.

import (
	"bytes"
	"encoding/json"
	"sort"
	"strconv"
)

type ownDump struct {
	K     string     `json:"k"`
	ID    string     `json:"id"`
	Items []*ownDump `json:"items"`
	Name  string     `json:"name"`
	Open  string     `json:"open"`
	Close string     `json:"close"`
	Sep   string     `json:"sep"`
	Multi bool       `json:"multi"`
	Typ   string     `json:"typ"`
	Text  string     `json:"text"`
	Pairs []struct {
		KeyID string   `json:"keyid"`
		Key   *ownDump `json:"key"`
		Val   *ownDump `json:"val"`
	} `json:"pairs"`
	M map[string]string `json:"m"`
}

type ownVisit struct {
	Dict string `json:"dict"`
	Key  string `json:"key"`
	Text string `json:"text"`
}

type ownRec struct {
	Origin    string     `json:"origin"`
	Name      string     `json:"name"`
	N         int        `json:"n"`
	Kind      string     `json:"kind"`
	Tree      *ownDump   `json:"tree"`
	RawStatus string     `json:"rawstatus"`
	Raw       string     `json:"raw"`
	Status    string     `json:"status"`
	Out       string     `json:"out"`
	Table     []Rec      `json:"table"`
	Visits    []ownVisit `json:"visits"`
	File      struct {
		Name      string   `json:"name"`
		Pkg       string   `json:"pkg"`
		Local     string   `json:"local"`
		Prefix    string   `json:"prefix"`
		Headers   []string `json:"headers"`
		Comments  []string `json:"comments"`
		Preamble  []string `json:"preamble"`
		Canonical string   `json:"canonical"`
		NoFormat  bool     `json:"noformat"`
		Hints     []Rec    `json:"hints"`
		Before    []Rec    `json:"before"`
	} `json:"file"`
}

var ownTokType = map[string]string{"identifier": "id", "keyword": "kw", "operator": "op", "delimiter": "op", "literal": "lit",
	"literal_rune": "lit", "literal_byte": "lit", "package": "pkg", "null": "null", "layout": "layout", "qualified": "id"}

func ownNode(d *ownDump, visits []ownVisit) *Node {
	conv := func(items []*ownDump) []*Node {
		out := []*Node{}
		for _, it := range items {
			out = append(out, ownNode(it, visits))
		}
		return out
	}
	switch d.K {
	case "nil":
		return &Node{K: "nil"}
	case "stmt":
		return &Node{K: "stmt", Items: conv(d.Items)}
	case "grp":
		return &Node{K: "grp", Name: d.Name, Items: conv(d.Items), Open: d.Open, Close: d.Close, Sep: d.Sep, Multi: d.Multi, Real: true}
	case "tok":
		t, ok := ownTokType[d.Typ]
		if !ok {
			fatal("own dump: unknown token type " + d.Typ)
		}
		return &Node{K: "tok", T: t, V: d.Text}
	case "cmt":
		return CommentNode(d.Text)
	case "tag":
		if len(d.M) == 0 {
			return &Node{K: "tag", V: ""}
		}
		return tagNode(d.M)
	case "dict":
		// pairs in the order the first pass visited them (first render), the pairs it skipped after them
		type pr struct {
			key, val *ownDump
			text     string
			visited  bool
		}
		byKey := map[string]int{}
		prs := []pr{}
		for _, p := range d.Pairs {
			byKey[p.KeyID] = len(prs)
			prs = append(prs, pr{key: p.Key, val: p.Val})
		}
		order := []int{}
		seen := map[string]bool{}
		for _, v := range visits {
			if v.Dict != d.ID || seen[v.Key] {
				continue
			}
			if i, ok := byKey[v.Key]; ok {
				seen[v.Key] = true
				prs[i].text, prs[i].visited = v.Text, true
				order = append(order, i)
			}
		}
		for i := range prs {
			if !prs[i].visited {
				order = append(order, i)
			}
		}
		n := &Node{K: "dict"}
		texts := []string{}
		nvis := 0
		for _, i := range order {
			n.Items = append(n.Items, &Node{K: "pair", Items: []*Node{ownNode(prs[i].key, visits), ownNode(prs[i].val, visits)}})
			texts = append(texts, prs[i].text)
			if prs[i].visited {
				nvis++
			}
		}
		idx := []int{}
		for i := range n.Items {
			idx = append(idx, i+1)
		}
		vis := idx[:nvis]
		sort.SliceStable(vis, func(a, b int) bool { return texts[vis[a]-1] < texts[vis[b]-1] })
		n.Order = idx
		return n
	}
	fatal("own dump: unknown kind " + d.K)
	return nil
}

func cmdOwnExamples(args []string) {
	// usage: ownexamples <own.ndjson> <trace.ndjson> <stats.json>
	tw := NewTraceWriter(args[1])
	readLines(args[0], func(line []byte) {
		var r ownRec
		if err := json.Unmarshal(line, &r); err != nil {
			fatal(err)
		}
		tw.Traces++
		tree := ownNode(r.Tree, r.Visits)
		paths := map[string]bool{}
		Walk(tree, func(n *Node) {
			if n.K == "tok" && n.T == "pkg" {
				paths[n.V] = true
			}
		})
		for _, t := range append(append([]Rec{}, r.Table...), append(r.File.Hints, r.File.Before...)...) {
			paths[t["path"].(string)] = true
		}
		if len(r.File.Preamble) > 0 {
			paths["C"] = true
		}
		if len(paths) == 0 {
			paths["fmt"] = true
		}
		info := map[string]pathInfo{}
		for p := range paths {
			info[p] = infoOf(p)
		}
		sorted := sortedKeys(paths)
		raw := []byte(r.Raw)
		out := []byte(r.Out)
		fm, fmok := Gofmt(raw)
		tab := r.Table
		if tab == nil {
			tab = []Rec{}
		}
		cm := func(cs []string) []*Node {
			o := []*Node{}
			for _, c := range cs {
				o = append(o, CommentNode(c))
			}
			return o
		}
		ev := Rec{"ev": "Code", "trace": tw.Traces, "origin": r.Origin, "name": r.Name, "tree": tree, "rawstatus": r.RawStatus, "raw": r.Raw,
			"status": r.Status, "table": tab, "paths": info, "sorted": sorted,
			"fmtok": fmok, "fmteq": r.Status == "nil" && fmok && bytes.Equal(fm, out)}
		if r.Kind == "file" {
			ev["ev"] = "File"
			hints, before := r.File.Hints, r.File.Before
			if hints == nil {
				hints = []Rec{}
			}
			if before == nil {
				before = []Rec{}
			}
			canonq := ""
			if r.File.Canonical != "" {
				canonq = strconv.Quote(r.File.Canonical)
			}
			ev["cfg"] = Rec{"pkg": r.File.Pkg, "local": r.File.Local, "prefix": r.File.Prefix, "headers": cm(r.File.Headers), "comments": cm(r.File.Comments),
				"preamble": cm(r.File.Preamble), "canonicalq": canonq, "noformat": r.File.NoFormat, "hints": hints, "before": before}
			if r.File.NoFormat {
				ev["fmteq"] = r.Status == "nil" && bytes.Equal(raw, out)
			}
			ev["parses"] = r.Status != "nil" || r.File.NoFormat || ParsesAsFile(out)
			ev["body"] = tree.Items
			if tree.Items == nil {
				ev["body"] = []*Node{}
			}
			delete(ev, "tree")
			tw.Distinct("files", r.Raw)
		} else {
			ev["parses"] = r.Status != "nil" || ParsesAsFragment(out)
			tw.Distinct("values", r.Raw)
		}
		tw.Stats["from_"+r.Origin]++
		tw.Emit(ev)
		if tw.Traces%120 == 1 {
			tw.Sample(Rec{"origin": r.Origin, "name": r.Name, "raw": r.Raw})
		}
	})
	tw.Close(args[2])
}
