package main

import (
	"bufio"
	"bytes"
	"encoding/json"
	"fmt"
	"go/ast"
	"go/build"
	"go/parser"
	"go/token"
	"math/rand"
	"os"
	"os/exec"
	"path/filepath"
	"sort"
	"strconv"
	"strings"
	"unicode"
	"unicode/utf8"
)

type Rec map[string]interface{}

// TraceWriter writes ndjson traces for TLC and keeps run statistics for the evidence file.
type TraceWriter struct {
	f       *os.File
	w       *bufio.Writer
	Events  int
	Traces  int
	Stats   map[string]int
	Samples []interface{}
	seen    map[string]bool
}

func NewTraceWriter(path string) *TraceWriter {
	f, err := os.Create(path)
	if err != nil {
		fatal(err)
	}
	return &TraceWriter{f: f, w: bufio.NewWriterSize(f, 1<<20), Stats: map[string]int{}, seen: map[string]bool{}}
}

func (t *TraceWriter) Emit(r Rec) {
	var buf bytes.Buffer
	enc := json.NewEncoder(&buf)
	enc.SetEscapeHTML(false)
	if err := enc.Encode(r); err != nil {
		fatal(err)
	}
	t.w.Write(buf.Bytes())
	t.Events++
}

// Distinct counts key once under the named counter.
func (t *TraceWriter) Distinct(counter, key string) {
	if len(key) > 64 {
		key = Hash([]byte(key))
	}
	k := counter + "\x00" + key
	if !t.seen[k] {
		t.seen[k] = true
		t.Stats[counter]++
	}
}

func (t *TraceWriter) Sample(s interface{}) {
	if len(t.Samples) < 3 {
		t.Samples = append(t.Samples, s)
	}
}

func (t *TraceWriter) Close(statsPath string) {
	t.w.Flush()
	t.f.Close()
	t.Stats["events"] = t.Events
	t.Stats["traces"] = t.Traces
	out := Rec{"stats": t.Stats, "samples": t.Samples}
	b, _ := json.MarshalIndent(out, "", " ")
	if err := os.WriteFile(statsPath, b, 0644); err != nil {
		fatal(err)
	}
}

func fatal(err interface{}) {
	fmt.Fprintln(os.Stderr, "harness: fatal:", err)
	os.Exit(2)
}

func seedFromEnv() int64 {
	if s := os.Getenv("VERIF_SEED"); s != "" {
		if n, err := strconv.ParseInt(s, 10, 64); err == nil {
			return n
		}
	}
	return 1
}

func newRand(salt int64) *rand.Rand { return rand.New(rand.NewSource(seedFromEnv()*1000003 + salt)) }

// readLines streams an ndjson file.
func readLines(path string, f func(line []byte)) {
	fh, err := os.Open(path)
	if err != nil {
		fatal(err)
	}
	defer fh.Close()
	sc := bufio.NewScanner(fh)
	sc.Buffer(make([]byte, 1<<20), 1<<28)
	for sc.Scan() {
		b := bytes.TrimSpace(sc.Bytes())
		if len(b) == 0 {
			continue
		}
		f(b)
	}
	if err := sc.Err(); err != nil {
		fatal(err)
	}
}

// decodeTLCLine decodes one line written by TLC's CSVWrite("%1$s", <<ToJson(x)>>): the line is
// the TLA+ string value with its quotes, i.e. a JSON string that contains JSON.
func decodeTLCLine(line []byte, into interface{}) {
	if len(line) > 0 && line[0] == '"' {
		var s string
		if err := json.Unmarshal(line, &s); err != nil {
			fatal(fmt.Sprintf("bad TLC line: %v: %.200s", err, line))
		}
		line = []byte(s)
	}
	if err := json.Unmarshal(line, into); err != nil {
		fatal(fmt.Sprintf("bad TLC json: %v: %.300s", err, line))
	}
}

// ---------- reference oracles independent of jennifer ----------

// RefGuess: the documented alias guess: last path element (a trailing slash is tolerated),
// lower-cased, only [a-z0-9] kept, leading digits dropped, "pkg" if nothing remains.
func RefGuess(path string) string {
	a := path
	if strings.HasSuffix(a, "/") {
		a = a[:len(a)-1]
	}
	if i := strings.LastIndex(a, "/"); i >= 0 {
		a = a[i+1:]
	}
	a = strings.ToLower(a)
	var b strings.Builder
	for i := 0; i < len(a); i++ {
		c := a[i]
		if c >= 'a' && c <= 'z' || c >= '0' && c <= '9' {
			b.WriteByte(c)
		}
	}
	a = b.String()
	for {
		r, n := utf8.DecodeRuneInString(a)
		if n == 0 || !unicode.IsDigit(r) {
			break
		}
		a = a[n:]
	}
	if a == "" {
		a = "pkg"
	}
	return a
}

var stdCache map[string]string

// StdPackages enumerates every package directory of GOROOT/src (non-test files, not main,
// not testdata/cmd) with the name declared in its package clause: the toolchain's own truth.
func StdPackages() map[string]string {
	if stdCache != nil {
		return stdCache
	}
	root, err := filepath.EvalSymlinks(filepath.Join(build.Default.GOROOT, "src"))
	if err != nil {
		fatal(err)
	}
	out := map[string]string{}
	filepath.Walk(root, func(p string, info os.FileInfo, err error) error {
		if err != nil || !info.IsDir() {
			return nil
		}
		rel, _ := filepath.Rel(root, p)
		rel = filepath.ToSlash(rel)
		base := filepath.Base(p)
		if base == "testdata" || strings.HasPrefix(base, "_") || strings.HasPrefix(base, ".") && rel != "." {
			return filepath.SkipDir
		}
		if rel == "cmd" || rel == "vendor" || rel == "." {
			if rel == "." {
				return nil
			}
			return filepath.SkipDir
		}
		files, _ := filepath.Glob(filepath.Join(p, "*.go"))
		names := map[string]int{}
		for _, fn := range files {
			if strings.HasSuffix(fn, "_test.go") {
				continue
			}
			f, err := parser.ParseFile(token.NewFileSet(), fn, nil, parser.PackageClauseOnly)
			if err != nil {
				continue
			}
			if hasIgnoreTag(fn) {
				continue
			}
			names[f.Name.Name]++
		}
		best, n := "", 0
		for k, c := range names {
			if c > n || c == n && k < best {
				best, n = k, c
			}
		}
		if best != "" && best != "main" {
			out[rel] = best
		}
		return nil
	})
	stdCache = out
	return out
}

func hasIgnoreTag(fn string) bool {
	b, err := os.ReadFile(fn)
	if err != nil {
		return false
	}
	head := b
	if len(head) > 2048 {
		head = head[:2048]
	}
	return bytes.Contains(head, []byte("//go:build ignore")) || bytes.Contains(head, []byte("// +build ignore"))
}

func StdName(path string) string { return StdPackages()[path] }

func sortedKeys(m map[string]bool) []string {
	out := make([]string, 0, len(m))
	for k := range m {
		out = append(out, k)
	}
	sort.Strings(out)
	return out
}

var _ = ast.Inspect

// ---------------------------------------------------------------------------------------------------
// Crash containment.  A change to the library can make it die in a way Go cannot recover from (a statement that ends up
// containing itself overflows the stack; concurrent map access).  Behaviours are therefore executed by CHILD processes,
// a batch at a time; when a child dies its batch is executed again one behaviour per process, and a behaviour that kills
// its process is written to the trace as the observation {"ev": "Crash"} - every other behaviour is still observed and
// checked.  (The child is this binary: `<sub> <trace part> <stats part> <first id>` with the batch as JSON on stdin.)

type partStats struct {
	Stats   map[string]int `json:"stats"`
	Samples []interface{}  `json:"samples"`
	Seen    []string       `json:"seen"`
}

// CloseChild: like Close, and the keys of the distinct counters are kept so that the parent can merge them exactly.
func (t *TraceWriter) CloseChild(statsPath string) {
	t.w.Flush()
	t.f.Close()
	t.Stats["events"] = t.Events
	t.Stats["traces"] = t.Traces
	seen := []string{}
	for k := range t.seen {
		seen = append(seen, k)
	}
	b, _ := json.Marshal(partStats{Stats: t.Stats, Samples: t.Samples, Seen: seen})
	if err := os.WriteFile(statsPath, b, 0644); err != nil {
		fatal(err)
	}
}

func (t *TraceWriter) absorb(part, stats string) {
	b, err := os.ReadFile(part)
	if err != nil {
		fatal(err)
	}
	t.w.Write(b)
	var ps partStats
	sb, err := os.ReadFile(stats)
	if err != nil {
		fatal(err)
	}
	if err := json.Unmarshal(sb, &ps); err != nil {
		fatal(err)
	}
	distinct := map[string]bool{}
	for _, k := range ps.Seen {
		c := k[:strings.IndexByte(k, 0)]
		distinct[c] = true
		if !t.seen[k] {
			t.seen[k] = true
			t.Stats[c]++
		}
	}
	for k, v := range ps.Stats {
		switch {
		case k == "events":
			t.Events += v
		case k == "traces":
			t.Traces += v
		case !distinct[k]:
			t.Stats[k] += v
		}
	}
	for _, s := range ps.Samples {
		t.Sample(s)
	}
}

// runContained executes items (one JSON value per behaviour, ids first, first+1, ...) through child processes.
func runContained(tw *TraceWriter, sub string, items []json.RawMessage, first int, batch int) {
	dir, err := os.MkdirTemp(filepath.Dir(tw.f.Name()), "parts")
	if err != nil {
		fatal(err)
	}
	defer os.RemoveAll(dir)
	var run func(lo, hi int)
	run = func(lo, hi int) { // items[lo:hi]
		part, stats := filepath.Join(dir, "part.ndjson"), filepath.Join(dir, "part.json")
		os.Remove(part)
		os.Remove(stats)
		in, _ := json.Marshal(items[lo:hi])
		cmd := exec.Command(os.Args[0], sub, part, stats, strconv.Itoa(first+lo))
		cmd.Stdin = bytes.NewReader(in)
		cmd.Env = os.Environ()
		var errb bytes.Buffer
		cmd.Stderr = &errb
		err := cmd.Run()
		if err == nil {
			tw.absorb(part, stats)
			return
		}
		msg := errb.String()
		died := strings.Contains(msg, "fatal error:") || strings.Contains(msg, "goroutine stack exceeds")
		if !died {
			// the harness itself gave up (its own fatal()): machinery failure, not an observation
			fmt.Fprint(os.Stderr, msg)
			fatal(fmt.Sprintf("%s child failed: %v", sub, err))
		}
		if hi-lo > 1 {
			mid := (lo + hi) / 2
			run(lo, mid)
			run(mid, hi)
			return
		}
		line := ""
		for _, l := range strings.Split(msg, "\n") {
			if strings.Contains(l, "fatal error:") || strings.Contains(l, "goroutine stack exceeds") {
				line = strings.TrimSpace(l)
				break
			}
		}
		tw.Traces++
		tw.Stats["behaviours_that_killed_the_process"]++
		tw.Emit(Rec{"ev": "Crash", "op": "Crash", "id": first + lo, "trace": first + lo, "msg": line, "behaviour": string(items[lo])})
	}
	for lo := 0; lo < len(items); lo += batch {
		hi := lo + batch
		if hi > len(items) {
			hi = len(items)
		}
		run(lo, hi)
	}
}
