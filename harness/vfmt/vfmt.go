// Package vfmt stands in for fmt in the copies of the repository's example / test sources: every jen value
// that an example prints is captured (the object itself, so that its structure can be dumped) instead of printed.
package vfmt

import (
	"fmt"
)

// Captured receives every printed argument that is not a plain value.
var Captured []interface{}

func capture(a []interface{}) {
	for _, x := range a {
		switch x.(type) {
		case nil, string, int, bool, error, float64:
		default:
			Captured = append(Captured, x)
		}
	}
}

func Printf(format string, a ...interface{}) (int, error) { capture(a); return 0, nil }
func Println(a ...interface{}) (int, error)               { capture(a); return 0, nil }
func Print(a ...interface{}) (int, error)                 { capture(a); return 0, nil }
func Sprintf(format string, a ...interface{}) string      { capture(a); return fmt.Sprintf(format, a...) }
func Sprint(a ...interface{}) string                      { capture(a); return fmt.Sprint(a...) }
func Errorf(format string, a ...interface{}) error        { return fmt.Errorf(format, a...) }
