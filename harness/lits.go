package main

// Literal family (C11 C12 C17): values through Lit / LitFunc / LitRune / LitByte / Tag on the real
// library; the output is measured with go/scanner, go/types.Eval, go/constant, strconv and reflect.
// Observations are aggregated by signature (one trace event per distinct signature, with a count and an
// example), so that millions of values can be validated by one TLC run.

import (
	"bytes"
	"fmt"
	"go/ast"
	"go/constant"
	"go/parser"
	"go/scanner"
	"go/token"
	"go/types"
	"math"
	"math/rand"
	"reflect"
	"sort"
	"strconv"
	"strings"
	"sync"
	"unicode"
	"unicode/utf8"

	"github.com/dave/jennifer/jen"
)

type sigAgg struct {
	order []string
	recs  map[string]Rec
	count map[string]int
}

func newSigAgg() *sigAgg { return &sigAgg{recs: map[string]Rec{}, count: map[string]int{}} }

func (a *sigAgg) add(sig string, r Rec) {
	if _, ok := a.recs[sig]; !ok {
		a.recs[sig] = r
		a.order = append(a.order, sig)
	}
	a.count[sig]++
}

func (a *sigAgg) flush(tw *TraceWriter) {
	for i, s := range a.order {
		r := a.recs[s]
		r["count"] = a.count[s]
		r["id"] = i + 1
		tw.Emit(r)
	}
}

// renderExpr renders `var x = <code>` / `var y = 1` in a NoFormat File and returns the expression text and
// the token kinds of the whole body.
func renderExpr(code *jen.Statement) (expr string, toks []tokn, status string) {
	return renderExprF(func() *jen.Statement { return code })
}

// renderExprF: the literal is BUILT inside the protected region as well (a constructor that panics is an observation)
func renderExprF(mk func() *jen.Statement) (expr string, toks []tokn, status string) {
	r := safely(func() ([]byte, error) {
		code := mk()
		f := jen.NewFile("main")
		f.NoFormat = true
		f.Var().Id("x").Op("=").Add(code)
		f.Var().Id("y").Op("=").Lit(1)
		var buf bytes.Buffer
		err := f.Render(&buf)
		return buf.Bytes(), err
	})
	if r.status != "nil" {
		return "", nil, r.status
	}
	src := string(r.out)
	i := strings.Index(src, "var x = ")
	j := strings.LastIndex(src, "\nvar y = 1")
	if i < 0 || j < i {
		return "", nil, "unframed"
	}
	expr = src[i+len("var x = ") : j]
	toks = scanTokens(r.out, false)
	if scanErrors(r.out) > 0 {
		// the Go scanner rejects the source (an illegal character, a byte order mark in the middle, an unterminated literal):
		// whatever tokens it recovered, this is not "one literal token"
		toks = append([]tokn{{tok: token.ILLEGAL, lit: "<scanner error>"}}, toks...)
	}
	return expr, toks, "nil"
}

func scanErrors(src []byte) int {
	fset := token.NewFileSet()
	file := fset.AddFile("", fset.Base(), len(src))
	var sc scanner.Scanner
	n := 0
	sc.Init(file, src, func(token.Position, string) { n++ }, 0)
	for {
		if _, tok, _ := sc.Scan(); tok == token.EOF {
			break
		}
	}
	return n
}

// framed reports whether the token stream is  package main ; var x = <k literal tokens> ; var y = 1 ;  and returns the middle tokens.
func framed(toks []tokn) ([]tokn, bool) {
	pre := []string{"package", "main", ";", "var", "x", "="}
	post := []string{";", "var", "y", "=", "1", ";"}
	lits := func(t tokn) string {
		if t.tok == token.SEMICOLON {
			return ";"
		}
		return t.lit
	}
	if len(toks) < len(pre)+len(post) {
		return nil, false
	}
	for i, p := range pre {
		if lits(toks[i]) != p {
			return nil, false
		}
	}
	for i, p := range post {
		if lits(toks[len(toks)-len(post)+i]) != p {
			return nil, false
		}
	}
	return toks[len(pre) : len(toks)-len(post)], true
}

func floatShape(text string) string {
	switch {
	case strings.ContainsAny(text, "eE") && !strings.HasPrefix(text, "0x"):
		return "exp"
	case strings.Contains(text, "."):
		return "point"
	}
	return "integral"
}

func litForm(expr, typ string) (form string) {
	switch {
	case strings.HasPrefix(expr, typ+"(") && strings.HasSuffix(expr, ")"):
		return "typed"
	case strings.HasSuffix(expr, ".0") && !strings.Contains(expr[:len(expr)-2], "."):
		return "bare.0"
	}
	return "bare"
}

func evalExpr(expr string) (typ string, val constant.Value, ok bool) {
	tv, err := types.Eval(token.NewFileSet(), nil, token.NoPos, expr)
	if err != nil || tv.Value == nil {
		if err == nil && tv.Type != nil {
			return tv.Type.String(), nil, false
		}
		return "", nil, false
	}
	t := tv.Type.String()
	if b, isBasic := tv.Type.(*types.Basic); isBasic && b.Info()&types.IsUntyped != 0 {
		t = types.Default(tv.Type).String()
	}
	return t, tv.Value, true
}

func valueEqual(v interface{}, c constant.Value) (eq bool) {
	// (the rendered expression may denote a constant of another KIND altogether - a string where a number was given:
	// go/constant panics on such comparisons; that is simply "not equal")
	defer func() {
		if recover() != nil {
			eq = false
		}
	}()
	switch x := v.(type) {
	case bool:
		return c.Kind() == constant.Bool && constant.BoolVal(c) == x
	case string:
		return c.Kind() == constant.String && constant.StringVal(c) == x
	case int:
		return constant.Compare(c, token.EQL, constant.MakeInt64(int64(x)))
	case int8:
		return constant.Compare(c, token.EQL, constant.MakeInt64(int64(x)))
	case int16:
		return constant.Compare(c, token.EQL, constant.MakeInt64(int64(x)))
	case int32:
		return constant.Compare(c, token.EQL, constant.MakeInt64(int64(x)))
	case int64:
		return constant.Compare(c, token.EQL, constant.MakeInt64(x))
	case uint:
		return constant.Compare(c, token.EQL, constant.MakeUint64(uint64(x)))
	case uint8:
		return constant.Compare(c, token.EQL, constant.MakeUint64(uint64(x)))
	case uint16:
		return constant.Compare(c, token.EQL, constant.MakeUint64(uint64(x)))
	case uint32:
		return constant.Compare(c, token.EQL, constant.MakeUint64(uint64(x)))
	case uint64:
		return constant.Compare(c, token.EQL, constant.MakeUint64(x))
	case uintptr:
		return constant.Compare(c, token.EQL, constant.MakeUint64(uint64(x)))
	case float64:
		f, _ := constant.Float64Val(constant.ToFloat(c))
		return f == x
	case float32:
		f, _ := constant.Float32Val(constant.ToFloat(c))
		return f == x
	case complex128:
		re, _ := constant.Float64Val(constant.Real(c))
		im, _ := constant.Float64Val(constant.Imag(c))
		return re == real(x) && im == imag(x)
	case complex64:
		re, _ := constant.Float32Val(constant.Real(c))
		im, _ := constant.Float32Val(constant.Imag(c))
		return re == real(x) && im == imag(x)
	}
	return false
}

func observeNumber(agg *sigAgg, v interface{}, viaFunc bool) {
	var code *jen.Statement
	status := "nil"
	func() {
		defer func() {
			if recover() != nil {
				status = "panic"
			}
		}()
		if viaFunc {
			// (a function with a state of its own - an iterator, a counter: only its FIRST result is the literal)
			calls := 0
			code = jen.LitFunc(func() interface{} {
				calls++
				if calls > 1 {
					return "called again"
				}
				return v
			})
		} else {
			code = jen.Lit(v)
		}
	}()
	expr, toks, st := "", []tokn(nil), status
	if status == "nil" {
		expr, toks, st = renderExpr(code)
	}
	recordNumber(agg, v, viaFunc, expr, toks, st, "alone")
}

// recordNumber: the facts about one rendered numeric literal (alone in a small File, or one of hundreds in a large one)
func recordNumber(agg *sigAgg, v interface{}, viaFunc bool, expr string, toks []tokn, st string, where string) {
	typ := fmt.Sprintf("%T", v)
	inner := expr
	if strings.HasPrefix(expr, typ+"(") && strings.HasSuffix(expr, ")") {
		inner = expr[len(typ)+1 : len(expr)-1]
	}
	shape := "integral"
	if strings.HasPrefix(typ, "float") {
		shape = floatShape(strings.TrimSuffix(inner, ".0"))
		if strings.HasSuffix(inner, ".0") && !strings.Contains(strings.TrimSuffix(inner, ".0"), ".") {
			shape = "integral"
		}
	}
	_, isFramed := framed(toks)
	etype, val, ok := evalExpr(expr)
	veq := ok && valueEqual(v, val)
	form := litForm(expr, typ)
	sig := fmt.Sprint(typ, shape, form, etype, veq, isFramed, st, viaFunc, where)
	agg.add(sig, Rec{"ev": "num", "type": typ, "shape": shape, "form": form, "evaltype": etype, "valeq": veq,
		"framed": isFramed, "status": st, "viafunc": viaFunc, "example": expr, "input": fmt.Sprintf("%v", v), "where": where})
}

// observeBulkNumbers: several hundred values as declarations of ONE File, every value twice (far apart), rendered twice:
// a literal says the same whatever else the File holds and however often it is rendered
func observeBulkNumbers(agg *sigAgg, vs []interface{}) {
	if len(vs) > 600 {
		vs = vs[:600]
	}
	var f *jen.File
	r := safely(func() ([]byte, error) {
		f = jen.NewFile("main")
		f.NoFormat = true
		for pass := 0; pass < 2; pass++ {
			for i, v := range vs {
				v := v
				if (i+pass)%3 == 0 {
					f.Var().Id(fmt.Sprintf("b%d_%d", pass, i)).Op("=").LitFunc(func() interface{} { return v })
				} else {
					f.Var().Id(fmt.Sprintf("b%d_%d", pass, i)).Op("=").Lit(v)
				}
			}
		}
		var first, buf bytes.Buffer
		if err := f.Render(&first); err != nil {
			return nil, err
		}
		err := f.Render(&buf)
		return buf.Bytes(), err
	})
	lines := map[string]string{}
	for _, ln := range strings.Split(string(r.out), "\n") {
		if strings.HasPrefix(ln, "var b") {
			if i := strings.Index(ln, " = "); i > 0 {
				lines[ln[4:i]] = ln[i+3:]
			}
		}
	}
	for pass := 0; pass < 2; pass++ {
		for i, v := range vs {
			expr, ok := lines[fmt.Sprintf("b%d_%d", pass, i)]
			st := r.status
			if st == "nil" && !ok {
				st = "unframed"
			}
			src := []byte("package main\n\n\nvar x = " + expr + "\nvar y = 1")
			toks := scanTokens(src, false)
			if scanErrors(src) > 0 {
				toks = append([]tokn{{tok: token.ILLEGAL, lit: "<scanner error>"}}, toks...)
			}
			recordNumber(agg, v, (i+pass)%3 == 0, expr, toks, st, "bulk")
		}
	}
}

func numberValues(r *rand.Rand, n int, tw *TraceWriter) []interface{} {
	vs := []interface{}{true, false}
	// exhaustive 8- and 16-bit integers
	for i := math.MinInt8; i <= math.MaxInt8; i++ {
		vs = append(vs, int8(i))
	}
	for i := 0; i <= math.MaxUint8; i++ {
		vs = append(vs, uint8(i))
	}
	for i := math.MinInt16; i <= math.MaxInt16; i++ {
		vs = append(vs, int16(i))
	}
	for i := 0; i <= math.MaxUint16; i++ {
		vs = append(vs, uint16(i))
	}
	// boundaries of the wider integer types
	for _, x := range []int64{math.MinInt64, math.MinInt64 + 1, math.MinInt32 - 1, math.MinInt32, -1, 0, 1, math.MaxInt32, math.MaxInt32 + 1, math.MaxInt64 - 1, math.MaxInt64} {
		vs = append(vs, x, int(x), int32(x))
	}
	for _, x := range []uint64{0, 1, math.MaxUint32, math.MaxUint32 + 1, math.MaxInt64, math.MaxInt64 + 1, math.MaxUint64 - 1, math.MaxUint64} {
		vs = append(vs, x, uint(x), uint32(x), uintptr(x))
	}
	// floats: every decade, the neighbours of each decade, extremes, subnormals, integral values
	fl := []float64{0, math.Copysign(0, -1), 1, -1, 0.5, 1.5, 1e20, 1e21, 1e-4, 1e-5, 123456789, 1234567890123456789, math.MaxFloat64, math.SmallestNonzeroFloat64,
		math.MaxFloat32, math.SmallestNonzeroFloat32, 2.2250738585072014e-308, 2.225073858507201e-308, 4.9e-324, 1 << 53, 1<<53 + 2, 0.1, 0.2, 0.30000000000000004, 100, 1e6, 123456.789}
	for e := -325; e <= 308; e++ {
		x := math.Pow(10, float64(e))
		fl = append(fl, x, math.Nextafter(x, 0), math.Nextafter(x, math.Inf(1)), 3*x, 9.999999*x)
	}
	for i := 0; i < n; i++ {
		switch r.Intn(4) {
		case 0:
			fl = append(fl, math.Float64frombits(r.Uint64()))
		case 1:
			fl = append(fl, float64(r.Int63n(1<<40))/float64(int64(1)<<uint(r.Intn(40))))
		case 2:
			fl = append(fl, float64(r.Intn(100000)))
		default:
			fl = append(fl, r.NormFloat64()*math.Pow(10, float64(r.Intn(40)-20)))
		}
		vs = append(vs, r.Int63()-r.Int63(), int(r.Int63()-r.Int63()), r.Uint64(), int32(r.Uint32()), uint32(r.Uint32()))
	}
	prev := 0.0
	for _, x := range fl {
		if math.IsNaN(x) || math.IsInf(x, 0) {
			continue
		}
		for _, s := range []float64{x, -x} {
			vs = append(vs, s)
			if f32 := float32(s); !math.IsInf(float64(f32), 0) {
				vs = append(vs, f32)
				vs = append(vs, complex(f32, float32(prev)))
				// the float64 / complex128 that EQUALS the float32 just rendered (its exact widening), right after it:
				// what is written for a value must not depend on which other literals were rendered before
				vs = append(vs, float64(f32), complex(float64(f32), float64(float32(prev))))
			}
			vs = append(vs, complex(s, prev), complex(prev, s))
		}
		if !math.IsInf(float64(float32(x)), 0) {
			prev = x
		}
	}
	// complex numbers whose parts are finite but whose modulus is not representable, and the extremes of both kinds
	for _, c := range []complex128{complex(1.5e308, 1.5e308), complex(-math.MaxFloat64, math.MaxFloat64), complex(1.7e308, -6e307), complex(math.MaxFloat64, math.MaxFloat64),
		complex(math.SmallestNonzeroFloat64, -math.SmallestNonzeroFloat64), complex(1e300, -1e300), complex(0, math.MaxFloat64)} {
		vs = append(vs, c)
	}
	for _, c := range []complex64{complex(math.MaxFloat32, math.MaxFloat32), complex(-math.MaxFloat32, 3e38), complex(math.SmallestNonzeroFloat32, 1)} {
		vs = append(vs, c)
	}
	// one numeric value through every type that can hold it, in shuffled type orders (a literal's text must depend on
	// its own type and value only, not on the literals of other types rendered earlier in the process)
	for _, x := range []int64{0, 1, 7, 100, 127, 128, 255, 256, 1000, 65535, 100000, 1 << 24, 1<<24 + 1, 1 << 31, 1<<53 + 1} {
		typed := []interface{}{int(x), int64(x), uint(x), uint64(x), uintptr(x), float64(x), float32(x), complex(float64(x), 0), complex(float32(x), 0)}
		if x <= math.MaxInt32 {
			typed = append(typed, int32(x), uint32(x))
		}
		if x <= math.MaxInt16 {
			typed = append(typed, int16(x), uint16(x))
		}
		if x <= math.MaxInt8 {
			typed = append(typed, int8(x), uint8(x))
		}
		for round := 0; round < 3; round++ {
			r.Shuffle(len(typed), func(i, j int) { typed[i], typed[j] = typed[j], typed[i] })
			vs = append(vs, typed...)
		}
	}
	return vs
}

func cmdLitsNum(args []string) {
	// usage: lits-num <out.ndjson> <stats.json> <n random>
	tw := NewTraceWriter(args[0])
	n, _ := strconv.Atoi(args[2])
	agg := newSigAgg()
	vs := numberValues(newRand(11), n, tw)
	for i, v := range vs {
		observeNumber(agg, v, false)
		if i%3 == 0 {
			observeNumber(agg, v, true)
		}
		tw.Traces++
	}
	observeBulkNumbers(agg, vs)
	{
		n := min(len(vs), 300)
		observeBulk(agg, "number in a Dict", n, func(i int) *jen.Statement { return jen.Lit(vs[i]) }, true)
		observeBulk(agg, "number in a list", n, func(i int) *jen.Statement { return jen.Lit(vs[i]) }, false)
	}
	tw.Stats["values"] = len(vs)
	tw.Stats["values_in_one_large_file"] = 2 * min(len(vs), 600)
	tw.Stats["nontrivial"] = len(vs) - 2
	agg.flush(tw)
	for _, s := range agg.order[:min(3, len(agg.order))] {
		tw.Sample(agg.recs[s])
	}
	tw.Close(args[1])
}

func min(a, b int) int {
	if a < b {
		return a
	}
	return b
}

// ---------------- C12 ----------------

func charClass(s string, i int) (cls string, size int) {
	b := s[i]
	if b < utf8.RuneSelf {
		switch {
		case b == '"':
			return "dquote", 1
		case b == '\'':
			return "squote", 1
		case b == '`':
			return "backquote", 1
		case b == '\\':
			return "backslash", 1
		case b == '\n':
			return "newline", 1
		case b == '\t':
			return "tab", 1
		case b == 0x7f:
			return "del", 1
		case b < 0x20:
			return "ctrl", 1
		}
		return "plain", 1
	}
	r, n := utf8.DecodeRuneInString(s[i:])
	if r == utf8.RuneError && n == 1 {
		return "badutf8", 1
	}
	if strconv.IsPrint(r) {
		return "uniprint", n
	}
	return "uninonprint", n
}

func classSeq(s string, limit int) []string {
	out := []string{}
	for i := 0; i < len(s) && len(out) < limit; {
		c, n := charClass(s, i)
		out = append(out, c)
		i += n
	}
	return out
}

var classReps = map[string][]string{
	"plain": {"a", " ", "}", ";", "/", "x := 1"}, "dquote": {"\""}, "squote": {"'"}, "backquote": {"`"}, "backslash": {"\\"},
	"newline": {"\n"}, "tab": {"\t"}, "ctrl": {"\x00", "\x01", "\r", "\x1b"}, "del": {"\x7f"},
	"uniprint": {"é", "日", "😀", "ß"}, "uninonprint": {"\u200b", "\u00a0", "\ufeff", "\U000e0001"}, "badutf8": {"\xff", "\xc0", "\xed\xa0\x80"[:1], "\x80"},
}

func observeString(agg *sigAgg, s string) {
	expr, toks, st := renderExprF(func() *jen.Statement { return jen.Lit(s) })
	mid, isFramed := framed(toks)
	one := isFramed && len(mid) == 1 && mid[0].tok == token.STRING
	un, err := strconv.Unquote(expr)
	rt := err == nil && un == s
	cs := classSeq(s, 4)
	sig := fmt.Sprint("string", cs, one, rt, st, len(s) > 0)
	agg.add(sig, Rec{"ev": "str", "kind": "string", "classes": cs, "onetoken": one, "roundtrip": rt, "status": st,
		"example": expr, "toks": len(mid), "style": func() string {
			if strings.HasPrefix(expr, "\"") {
				return "interpreted"
			}
			return "other"
		}()})
}

func observeRune(agg *sigAgg, r rune, viaFunc bool) {
	var code *jen.Statement
	built := safely(func() ([]byte, error) { // (a constructor that panics is an observation, not the end of the run)
		if viaFunc {
			code = jen.LitRuneFunc(func() rune { return r })
		} else {
			code = jen.LitRune(r)
		}
		return nil, nil
	})
	expr, toks, st := "", []tokn(nil), built.status
	if built.status == "nil" {
		expr, toks, st = renderExpr(code)
	}
	mid, isFramed := framed(toks)
	one := isFramed && len(mid) == 1 && mid[0].tok == token.CHAR
	un, _, _, err := strconv.UnquoteChar(strings.TrimSuffix(strings.TrimPrefix(expr, "'"), "'"), '\'')
	rt := err == nil && un == r && strings.HasPrefix(expr, "'") && strings.HasSuffix(expr, "'")
	cls, _ := charClass(string(r), 0)
	sig := fmt.Sprint("rune", cls, one, rt, st)
	agg.add(sig, Rec{"ev": "str", "kind": "rune", "classes": []string{cls}, "onetoken": one, "roundtrip": rt, "status": st,
		"example": expr, "toks": len(mid), "style": "char"})
}

func observeByte(agg *sigAgg, b byte, viaFunc bool) {
	expr, toks, st := renderExprF(func() *jen.Statement {
		if viaFunc {
			return jen.LitByteFunc(func() byte { return b })
		}
		return jen.LitByte(b)
	})
	_, isFramed := framed(toks)
	etype, val, ok := evalExpr(expr)
	rt := ok && (etype == "byte" || etype == "uint8") && constant.Compare(val, token.EQL, constant.MakeInt64(int64(b)))
	sig := fmt.Sprint("byte", isFramed, rt, st, etype)
	agg.add(sig, Rec{"ev": "str", "kind": "byte", "classes": []string{"plain"}, "onetoken": isFramed, "roundtrip": rt, "status": st,
		"example": expr, "toks": 4, "style": etype})
}

func cmdLitsStr(args []string) {
	// usage: lits-str <out.ndjson> <stats.json> <n random strings> <all runes: 0|1>
	tw := NewTraceWriter(args[0])
	n, _ := strconv.Atoi(args[2])
	allRunes := args[3] == "1"
	agg := newSigAgg()
	r := newRand(12)
	classes := []string{}
	for c := range classReps {
		classes = append(classes, c)
	}
	sort.Strings(classes)
	nstr := 0
	// every class sequence up to length 3, two representatives per class position
	var rec func(prefix string, depth int)
	rec = func(prefix string, depth int) {
		observeString(agg, prefix)
		nstr++
		if depth == 0 {
			return
		}
		for _, c := range classes {
			reps := classReps[c]
			rec(prefix+reps[r.Intn(len(reps))], depth-1)
			if depth == 1 {
				rec(prefix+reps[r.Intn(len(reps))], 0)
			}
		}
	}
	rec("", 3)
	adversarial := []string{"\"; panic(\"x\") //", "`+\"`\"+`", "*/", "/*", "\n}\n", "\\", "\\\"", "a\x00b", string([]byte{0xff, 0xfe, 0xfd}), "  ", "'", "\r\n", strings.Repeat("\"", 50),
		// a byte order mark is illegal anywhere in Go source except at offset 0, other format characters are legal: all must be escaped or kept so that the value survives
		"\ufeffid,name,price", "a\ufeffb", "plain text with a BOM at the end\ufeff", "zero\u200bwidth", "soft\u00adhyphen", "line\u2028sep", "\ufffe", "bidi\u202eoverride"}
	for _, s := range adversarial {
		observeString(agg, s)
		nstr++
	}
	for i := 0; i < n; i++ {
		l := r.Intn(12)
		b := make([]byte, l)
		switch r.Intn(3) {
		case 0:
			r.Read(b)
		case 1:
			for j := range b {
				const alpha = "\"`\\\n\x00'a{}/*"
				b[j] = alpha[r.Intn(len(alpha))]
			}
		default:
			s := ""
			for j := 0; j < l; j++ {
				reps := classReps[classes[r.Intn(len(classes))]]
				s += reps[r.Intn(len(reps))]
			}
			b = []byte(s)
		}
		observeString(agg, string(b))
		nstr++
	}
	// long texts: documents of many lines (LF, CRLF, mixed, lone CR, tabs, trailing blanks), 80 bytes to a few KB - a literal
	// syntax chosen by length or by the number of lines must still denote exactly the text
	docs := []string{}
	for i := 0; i < 60+n/200; i++ {
		nl := []string{"\n", "\r\n", "\n", "\r\n", "\r", "\n\n", "\r\n\r\n"}
		words := []string{"GET / HTTP/1.1", "Host: example.com", "key = value", "\tindented", "trailing  ", "", "ünïcödé", "a`b", "\"q\"", "x\\y", "{", "}", "// c", "/* c */", "100%"}
		plain := r.Intn(3) != 0 // most documents avoid the characters that force the interpreted form
		var b strings.Builder
		lines := 2 + r.Intn(40)
		style := r.Intn(4)
		for j := 0; j < lines; j++ {
			w := words[r.Intn(len(words))]
			if plain {
				w = words[r.Intn(8)]
			}
			b.WriteString(w)
			if r.Intn(3) == 0 {
				b.WriteString(" " + strings.Repeat("lorem ipsum ", r.Intn(6)))
			}
			switch style {
			case 0:
				b.WriteString("\n")
			case 1:
				b.WriteString("\r\n")
			default:
				b.WriteString(nl[r.Intn(len(nl))])
			}
		}
		docs = append(docs, b.String())
	}
	for _, d := range docs {
		observeString(agg, d)
		nstr++
	}
	// the same kinds of literal as the elements of one long list
	observeBulkValues(agg, "byte", 256, func(i int) *jen.Statement {
		if i%5 == 0 {
			return jen.LitByteFunc(func() byte { return byte(i) })
		}
		return jen.LitByte(byte(i))
	})
	observeBulkValues(agg, "rune", 300, func(i int) *jen.Statement { return jen.LitRune(rune(i*37%0x2fff + 1)) })
	observeBulkValues(agg, "string", len(docs), func(i int) *jen.Statement { return jen.Lit(docs[i]) })
	// ... and as the values of a Dict: texts that look like code around a pair (comment markers, commas, colons, braces)
	codeLike := []string{"a // b", "x /* y */ z", "q, r", "end //", "k: v", "{", "}", "},", "// all of it", "a\n// b", "`", "\"", "tab\t// c", "https://example.com/a//b", ""}
	observeBulk(agg, "string in a Dict", len(codeLike), func(i int) *jen.Statement { return jen.Lit(codeLike[i]) }, true)
	observeBulk(agg, "string in a Dict", len(docs), func(i int) *jen.Statement { return jen.Lit(docs[i]) }, true)
	// a rune and a string that meet in ONE item of a list (quote characters, comment markers on both sides)
	{
		qs := []rune{'"', '\'', '`', '/', '\\', '*', 'a', '\n'}
		n := len(qs) * len(codeLike) * 2
		observeBulk(agg, "rune next to string", n, func(i int) *jen.Statement {
			q, t := qs[i/2%len(qs)], codeLike[i/2/len(qs)%len(codeLike)]
			if i%2 == 0 {
				return jen.Id("string").Parens(jen.LitRune(q)).Op("+").Lit(t)
			}
			return jen.Lit(t).Op("+").Id("string").Parens(jen.LitRune(q))
		}, false)
	}
	observeBulk(agg, "byte in a Dict", 256, func(i int) *jen.Statement { return jen.LitByte(byte(i)) }, true)
	observeBulk(agg, "rune in a Dict", 200, func(i int) *jen.Statement { return jen.LitRune(rune(i*53%0x2fff + 1)) }, true)
	// the same literals rendered on several goroutines at once (every goroutine builds its own statements): the value
	// of a literal must not depend on what other goroutines render meanwhile
	{
		par := append([]string{}, docs...)
		for i := 0; i < 200; i++ {
			par = append(par, strings.Repeat(string(rune('a'+i%26)), 1+r.Intn(3000))+"\"\n`"+strconv.Itoa(i))
		}
		bad := make([]string, 8)
		var wg sync.WaitGroup
		for g := 0; g < 8; g++ {
			wg.Add(1)
			go func(g int) {
				defer wg.Done()
				for round := 0; round < 3; round++ {
					for i := g; i < len(par); i += 2 { // overlapping slices: the same text on several goroutines
						s := par[i]
						expr, _, st := renderExpr(jen.Lit(s))
						un, err := strconv.Unquote(expr)
						if st != "nil" || err != nil || un != s {
							bad[g] = expr
						}
						c := rune(0x4e00 + (i*7+g)%2000)
						rexpr, _, _ := renderExpr(jen.LitRune(c))
						if u, _, _, err := strconv.UnquoteChar(strings.Trim(rexpr, "'"), '\''); err != nil || u != c {
							bad[g] = rexpr
						}
					}
				}
			}(g)
		}
		wg.Wait()
		for g := range bad {
			okv := bad[g] == ""
			ex := bad[g]
			if len(ex) > 200 {
				ex = ex[:200]
			}
			agg.add(fmt.Sprint("string parallel", okv), Rec{"ev": "str", "kind": "string", "classes": []string{"plain"}, "onetoken": true, "roundtrip": okv, "status": "nil",
				"example": ex, "toks": 1, "style": "interpreted"})
		}
		nstr += 8
	}
	nr := 0
	if allRunes {
		for c := rune(0); c <= unicode.MaxRune; c++ {
			if c >= 0xd800 && c <= 0xdfff {
				continue
			}
			observeRune(agg, c, c%97 == 0)
			nr++
		}
	} else {
		for c := rune(0); c < 0x3000; c++ {
			observeRune(agg, c, c%97 == 0)
			nr++
		}
		for i := 0; i < 60000; i++ {
			c := rune(r.Intn(unicode.MaxRune + 1))
			if c >= 0xd800 && c <= 0xdfff {
				continue
			}
			observeRune(agg, c, false)
			nr++
		}
		for _, c := range []rune{0xd7ff, 0xe000, 0xfffd, 0xfffe, 0xffff, 0x10000, unicode.MaxRune} {
			observeRune(agg, c, true)
			nr++
		}
	}
	for b := 0; b < 256; b++ {
		observeByte(agg, byte(b), b%2 == 0)
	}
	tw.Traces = nstr + nr + 256
	tw.Stats["strings"] = nstr
	tw.Stats["runes"] = nr
	tw.Stats["bytes"] = 256
	tw.Stats["nontrivial"] = nstr + nr + 255
	agg.flush(tw)
	for _, s := range agg.order[:min(3, len(agg.order))] {
		tw.Sample(agg.recs[s])
	}
	tw.Close(args[1])
}

// observeBulkValues: many literals as the elements of ONE composite literal ([]interface{}{...}: no element type to lean
// on).  Every element must denote the same typed value as the same literal rendered alone.
func observeBulkValues(agg *sigAgg, kind string, n int, mk func(i int) *jen.Statement) {
	observeBulk(agg, kind, n, mk, false)
}

// inDict: the literals are the VALUES of a Dict (keys k0000000, k0000001, ...: their text order is their number order) instead of the elements of a list
func observeBulk(agg *sigAgg, kind string, n int, mk func(i int) *jen.Statement, inDict bool) {
	differ, example := 0, ""
	r := safely(func() ([]byte, error) {
		f := jen.NewFile("main")
		f.NoFormat = true
		if inDict {
			d := jen.Dict{}
			for i := 0; i < n; i++ {
				d[jen.Lit(fmt.Sprintf("k%07d", i))] = mk(i)
			}
			f.Var().Id("x").Op("=").Map(jen.String()).Interface().Values(d)
		} else {
			items := []jen.Code{}
			for i := 0; i < n; i++ {
				items = append(items, mk(i))
			}
			f.Var().Id("x").Op("=").Index().Interface().Values(items...)
		}
		var buf bytes.Buffer
		err := f.Render(&buf)
		return buf.Bytes(), err
	})
	got := []string{}
	if r.status == "nil" {
		fset := token.NewFileSet()
		if af, err := parser.ParseFile(fset, "", r.out, 0); err == nil {
			ast.Inspect(af, func(nd ast.Node) bool {
				if cl, ok := nd.(*ast.CompositeLit); ok && len(got) == 0 {
					for _, e := range cl.Elts {
						if kv, isKV := e.(*ast.KeyValueExpr); isKV {
							e = kv.Value // (pairs come out in key order: k000, k001, ...)
						}
						got = append(got, string(r.out[fset.Position(e.Pos()).Offset:fset.Position(e.End()).Offset]))
					}
					return false
				}
				return true
			})
		}
	}
	if len(got) != n {
		differ, example = n, fmt.Sprintf("%d elements instead of %d (%s)", len(got), n, r.status)
	} else {
		for i := 0; i < n; i++ {
			alone, _, st := renderExprF(func() *jen.Statement { return mk(i) })
			t1, v1, ok1 := evalExpr(alone)
			t2, v2, ok2 := evalExpr(got[i])
			if st != "nil" || ok1 != ok2 || t1 != t2 || (ok1 && !constant.Compare(v1, token.EQL, v2)) {
				differ++
				if example == "" {
					example = got[i] + " instead of " + alone
				}
			}
		}
	}
	prop := "C12"
	if strings.HasPrefix(kind, "number") {
		prop = "C11"
	}
	agg.add("bulk"+kind+fmt.Sprint(differ > 0), Rec{"ev": "bulk", "kind": kind, "prop": prop, "n": n, "differ": differ, "example": example, "status": r.status})
}

// ---------------- C17 ----------------

var tagObservations int

func observeTag(agg *sigAgg, m map[string]string) { observeTagShared(agg, m, false) }

// shared: the caller's map object tags a second field as well, and that field gets a further Tag call with another map
// (field A was given m: its literal must say what m said when Tag(m) was called, whatever happens to other fields)
func observeTagShared(agg *sigAgg, given map[string]string, shared bool) {
	var m map[string]string // what was given, kept apart from the object handed to the library
	if given != nil {
		m = map[string]string{}
		for k, v := range given {
			m[k] = v
		}
	}
	tagObservations++
	r := safely(func() ([]byte, error) {
		f := jen.NewFile("main")
		f.NoFormat = shared || tagObservations%2 == 0 // every second File is formatted (the literal goes through gofmt as well)
		fields := []jen.Code{jen.Id("A").Int().Tag(given), jen.Id("B").Int()}
		if shared {
			extra := map[string]string{"zz": "9"}
			for k := range m {
				extra[k] = "other" // an overlapping key with another value
				break
			}
			fields = append(fields, jen.Id("D").Int().Tag(given).Tag(extra), jen.Id("E").Int().Tag(extra))
		}
		f.Type().Id("T").Struct(fields...)
		var buf bytes.Buffer
		err := f.Render(&buf)
		if err == nil && !shared && len(given) >= 2 && tagObservations%3 == 0 {
			// the field is rendered, the caller then REPLACES one key of its map by another one (same size), and the field
			// is rendered again: the literal says what the map holds now
			for k := range given {
				delete(given, k)
				delete(m, k)
				break
			}
			given["zz.renamed"], m["zz.renamed"] = "r", "r"
			buf.Reset()
			err = f.Render(&buf)
		}
		return buf.Bytes(), err
	})
	st := r.status
	src := string(r.out)
	// the field line is  "A int <tag>"  (no tag for an empty map)
	expr, one := "", false
	toks := scanTokens(r.out, false)
	idx := -1
	for i := 0; i+1 < len(toks); i++ {
		if toks[i].tok == token.IDENT && toks[i].lit == "A" && toks[i+1].lit == "int" {
			idx = i + 2
		}
	}
	if idx > 0 && idx < len(toks) {
		if toks[idx].tok == token.STRING {
			expr = toks[idx].lit
			one = idx+1 < len(toks) && toks[idx+1].tok == token.SEMICOLON
		} else if toks[idx].tok == token.SEMICOLON {
			one = true
		}
	}
	_ = src
	val, err := strconv.Unquote(expr)
	lookups := true
	if len(m) > 0 && err != nil {
		lookups = false
	}
	keys := []string{}
	for k := range m {
		keys = append(keys, k)
	}
	sort.Strings(keys)
	for _, k := range keys {
		got, found := reflect.StructTag(val).Lookup(k)
		if !found || got != m[k] {
			lookups = false
		}
	}
	sortedOK := sort.StringsAreSorted(tagKeys(val)) && len(tagKeys(val)) == len(m)
	hasBQ := false
	vcls := map[string]bool{}
	for _, k := range keys {
		if strings.Contains(m[k], "`") || strings.Contains(k, "`") {
			hasBQ = true
		}
		for _, c := range classSeq(m[k], 64) {
			vcls[c] = true
		}
	}
	style := "none"
	if strings.HasPrefix(expr, "`") {
		style = "raw"
	} else if strings.HasPrefix(expr, "\"") {
		style = "interpreted"
	}
	cl := sortedKeys(vcls)
	sig := fmt.Sprint(len(m) == 0, cl, one, lookups, sortedOK, style, hasBQ, st)
	agg.add(sig, Rec{"ev": "tag", "empty": len(m) == 0, "nkeys": len(m), "classes": cl, "onetoken": one, "lookups": lookups, "sorted": sortedOK,
		"style": style, "hasbackquote": hasBQ, "status": st, "example": expr})
}

func cmdLitsTag(args []string) {
	// usage: lits-tag <out.ndjson> <stats.json> <n random maps>
	tw := NewTraceWriter(args[0])
	n, _ := strconv.Atoi(args[2])
	agg := newSigAgg()
	r := newRand(13)
	classes := []string{}
	for c := range classReps {
		classes = append(classes, c)
	}
	sort.Strings(classes)
	nm := 0
	observeTag(agg, map[string]string{})
	observeTag(agg, nil)
	// every class sequence up to length 2 as the value of one key, and as the second of two keys
	for _, c1 := range append([]string{""}, classes...) {
		for _, c2 := range append([]string{""}, classes...) {
			v := ""
			if c1 != "" {
				v += classReps[c1][r.Intn(len(classReps[c1]))]
			}
			if c2 != "" {
				v += classReps[c2][r.Intn(len(classReps[c2]))]
			}
			observeTag(agg, map[string]string{"json": v})
			observeTag(agg, map[string]string{"json": "a", "db": v, "xml": "z z"})
			observeTag(agg, map[string]string{"json": "a", "JSON": v, "Json": "c", "jsoN": "d"}) // keys that differ only by case
			observeTagShared(agg, map[string]string{"json": "a", "db": v}, true)
			nm += 4
		}
	}
	keyAlphabet := "abcdefghijklmnopqrstuvwxyzABCXYZ0123456789_-.,;!#$%&'()*+/<=>?@[]^`{|}~\\"
	for i := 0; i < n; i++ {
		m := map[string]string{}
		for k := 0; k < r.Intn(7); k++ {
			kl := 1 + r.Intn(5)
			key := ""
			for j := 0; j < kl; j++ {
				key += string(keyAlphabet[r.Intn(len(keyAlphabet))])
			}
			vl := r.Intn(8)
			b := make([]byte, vl)
			switch r.Intn(3) {
			case 0:
				r.Read(b)
			case 1:
				for j := range b {
					const alpha = "\"`\\\n :a"
					b[j] = alpha[r.Intn(len(alpha))]
				}
			default:
				s := ""
				for j := 0; j < vl; j++ {
					reps := classReps[classes[r.Intn(len(classes))]]
					s += reps[r.Intn(len(reps))]
				}
				b = []byte(s)
			}
			m[key] = string(b)
		}
		observeTagShared(agg, m, i%3 == 2)
		nm++
	}
	// LARGE tags: dozens of keys, values of several thousand bytes (a generated description, an embedded schema)
	for k := 1; k <= 48; k++ {
		m := map[string]string{}
		for j := 0; j < k; j++ {
			m[fmt.Sprintf("key%02d", j)] = fmt.Sprintf("v%d", j)
		}
		observeTag(agg, m)
		observeTag(agg, m)
		nm += 2
	}
	for _, ln := range []int{300, 1000, 4000, 4096, 4097, 5000, 9000, 70000} {
		for _, ch := range []string{"a", "a b", "é", "\"", "`"} {
			v := strings.Repeat(ch, ln/len(ch))
			observeTag(agg, map[string]string{"doc": v, "json": "x"})
			observeTag(agg, map[string]string{"doc": v, "json": "x"})
			nm += 2
		}
	}
	tw.Traces = nm + 2
	tw.Stats["maps"] = nm + 2
	tw.Stats["nontrivial"] = nm
	agg.flush(tw)
	for _, s := range agg.order[:min(3, len(agg.order))] {
		tw.Sample(agg.recs[s])
	}
	tw.Close(args[1])
}

// tagKeys lists the keys of a conventional struct tag in the order they are written (the scanning rule of
// reflect.StructTag.Lookup).
func tagKeys(tag string) []string {
	keys := []string{}
	for tag != "" {
		i := 0
		for i < len(tag) && tag[i] == ' ' {
			i++
		}
		tag = tag[i:]
		if tag == "" {
			break
		}
		i = 0
		for i < len(tag) && tag[i] > ' ' && tag[i] != ':' && tag[i] != '"' && tag[i] != 0x7f {
			i++
		}
		if i == 0 || i+1 >= len(tag) || tag[i] != ':' || tag[i+1] != '"' {
			break
		}
		name := tag[:i]
		tag = tag[i+1:]
		i = 1
		for i < len(tag) && tag[i] != '"' {
			if tag[i] == '\\' {
				i++
			}
			i++
		}
		if i >= len(tag) {
			break
		}
		keys = append(keys, name)
		tag = tag[i+1:]
	}
	return keys
}
