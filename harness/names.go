package main

// gennames (C18): the name table written by the tree's gennames tool for the installed toolchain.

import (
	"bytes"
	"go/ast"
	"go/parser"
	"go/token"
	"sort"
	"strconv"
	"strings"

	"github.com/dave/jennifer/jen"
)

func cmdNamesPost(args []string) {
	// usage: names-post <generated names.go> <trace.ndjson> <stats.json>
	tw := NewTraceWriter(args[1])
	f, err := parser.ParseFile(token.NewFileSet(), args[0], nil, 0)
	if err != nil {
		// the tool's output is part of the property: an unreadable table is an observation, not a machinery failure
		tw.Traces++
		tw.Emit(Rec{"ev": "tablebad", "msg": err.Error()})
		tw.Close(args[2])
		return
	}
	table := map[string]string{}
	ast.Inspect(f, func(n ast.Node) bool {
		if cl, ok := n.(*ast.CompositeLit); ok {
			for _, e := range cl.Elts {
				if kv, ok := e.(*ast.KeyValueExpr); ok {
					k, okk := kv.Key.(*ast.BasicLit)
					v, okv := kv.Value.(*ast.BasicLit)
					if okk && okv {
						p, _ := strconv.Unquote(k.Value)
						nm, _ := strconv.Unquote(v.Value)
						table[p] = nm
					}
				}
			}
		}
		return true
	})
	std := StdPackages()
	paths := []string{}
	for p := range table {
		paths = append(paths, p)
	}
	sort.Strings(paths)
	for _, p := range paths {
		tw.Traces++
		// a File that is given the whole table and references the package
		hints := map[string]string{}
		for k, v := range table {
			hints[k] = v
		}
		fl := jen.NewFile("main")
		fl.ImportNames(hints)
		fl.Var().Id("_").Op("=").Qual(p, "X")
		r := renderFile(fl)
		qual, alias := "", ""
		if r.status == "nil" {
			specs, refs, _ := ProjectImports(r.out, map[string]string{"X": p})
			if len(refs) == 1 {
				qual = refs[0].Qual
			}
			for _, s := range specs {
				if s.Path == p {
					alias = s.Name
				}
			}
		}
		tw.Emit(Rec{"ev": "entry", "path": p, "name": table[p], "real": std[p], "status": r.status, "qual": qual, "alias": alias})
		if std[p] != "" {
			tw.Distinct("entries_checked_against_package_clauses", p)
		}
	}
	// every importable standard package is in the table (internal and vendored packages cannot be imported by user code)
	for p := range std {
		if _, ok := table[p]; ok || strings.Contains("/"+p+"/", "/internal/") || strings.HasPrefix(p, "vendor/") || strings.Contains(p, "/vendor/") {
			continue
		}
		tw.Emit(Rec{"ev": "missing", "path": p})
		tw.Stats["std_directories_not_in_the_table"]++
	}
	tw.Stats["table_entries"] = len(table)
	_ = bytes.MinRead
	tw.Close(args[2])
}
