package main

// Projections of real output into the vocabulary of the specification, using the Go
// standard library as the measuring instrument (independent of jennifer).

import (
	"bytes"
	"crypto/sha256"
	"encoding/hex"
	"fmt"
	"go/ast"
	"go/format"
	"go/parser"
	"go/scanner"
	"go/token"
	"go/types"
	"sort"
	"strconv"
	"strings"
)

type Spec struct {
	Path  string `json:"path"`
	Name  string `json:"name"`  // "" when no name is written
	Legal bool   `json:"legal"` // name is an identifier, not a keyword, not in the universe scope (true for "", "_", ".")
	Decl  int    `json:"decl"`  // index of the import declaration (1-based)
	Doc   string `json:"doc"`   // doc comment of the declaration: all comment texts joined, white space removed
}

type Ref struct {
	Path string `json:"path"`
	Qual string `json:"qual"`
}

type tokn struct {
	tok  token.Token
	lit  string
	line int
}

func scanTokens(src []byte, comments bool) []tokn {
	fset := token.NewFileSet()
	file := fset.AddFile("", fset.Base(), len(src))
	var s scanner.Scanner
	mode := scanner.Mode(0)
	if comments {
		mode = scanner.ScanComments
	}
	s.Init(file, src, func(token.Position, string) {}, mode)
	out := []tokn{}
	for {
		pos, tok, lit := s.Scan()
		if tok == token.EOF {
			break
		}
		if lit == "" {
			lit = tok.String()
		}
		out = append(out, tokn{tok, lit, fset.Position(pos).Line})
	}
	return out
}

// LegalName reports whether jennifer may use n as an import name.
func LegalName(n string) bool {
	if n == "" || n == "_" || n == "." {
		return true
	}
	return token.IsIdentifier(n) && types.Universe.Lookup(n) == nil
}

// ProjectImports reads import specs and package references from the token stream, so it
// works for raw, formatted and even unparsable output. syms maps symbol -> path.
func ProjectImports(src []byte, syms map[string]string) (specs []Spec, refs []Ref, bare []string) {
	toks := scanTokens(src, false)
	specs, refs, bare = []Spec{}, []Ref{}, []string{}
	decl := 0
	i := 0
	readSpec := func() {
		name := ""
		for i < len(toks) && toks[i].tok != token.STRING && toks[i].tok != token.SEMICOLON && toks[i].tok != token.RPAREN {
			name += toks[i].lit
			i++
		}
		if i < len(toks) && toks[i].tok == token.STRING {
			p, err := strconv.Unquote(toks[i].lit)
			if err != nil {
				p = toks[i].lit
			}
			specs = append(specs, Spec{Path: p, Name: name, Legal: LegalName(name), Decl: decl, Doc: ""})
			i++
		}
	}
	for i < len(toks) {
		t := toks[i]
		if t.tok == token.IMPORT {
			decl++
			i++
			if i < len(toks) && toks[i].tok == token.LPAREN {
				i++
				for i < len(toks) && toks[i].tok != token.RPAREN {
					if toks[i].tok == token.SEMICOLON {
						i++
						continue
					}
					before := i
					readSpec()
					if i == before {
						i++
					}
				}
			} else {
				readSpec()
			}
			continue
		}
		if t.tok == token.IDENT {
			if p, ok := syms[t.lit]; ok {
				if i >= 1 && toks[i-1].tok == token.PERIOD {
					q := "?"
					if i >= 2 && toks[i-2].tok == token.IDENT {
						q = toks[i-2].lit
					} else if i >= 2 {
						q = "?" + toks[i-2].lit
					}
					refs = append(refs, Ref{p, q})
				} else {
					bare = append(bare, p)
				}
			}
		}
		i++
	}
	refs = dedupRefs(refs)
	bare = dedupStrings(bare)
	return
}

func dedupRefs(in []Ref) []Ref {
	seen := map[Ref]bool{}
	out := []Ref{}
	for _, r := range in {
		if !seen[r] {
			seen[r] = true
			out = append(out, r)
		}
	}
	sort.Slice(out, func(i, j int) bool {
		if out[i].Path != out[j].Path {
			return out[i].Path < out[j].Path
		}
		return out[i].Qual < out[j].Qual
	})
	return out
}

func dedupStrings(in []string) []string {
	seen := map[string]bool{}
	out := []string{}
	for _, r := range in {
		if !seen[r] {
			seen[r] = true
			out = append(out, r)
		}
	}
	sort.Strings(out)
	return out
}

// ImportDocs parses src (must be a valid file) and returns, per import declaration, its doc comments.
func ImportDocs(src []byte) (docs []string, ok bool) {
	fset := token.NewFileSet()
	f, err := parser.ParseFile(fset, "", src, parser.ParseComments)
	if err != nil {
		return nil, false
	}
	for _, d := range f.Decls {
		gd, isGen := d.(*ast.GenDecl)
		if !isGen || gd.Tok != token.IMPORT {
			continue
		}
		doc := ""
		if gd.Doc != nil {
			for _, c := range gd.Doc.List {
				doc += c.Text
			}
		}
		docs = append(docs, StripSpace(doc))
	}
	return docs, true
}

func ParsesAsFile(src []byte) bool {
	_, err := parser.ParseFile(token.NewFileSet(), "", src, parser.ParseComments)
	return err == nil
}

// ParsesAsFragment: declarations or statements (what format.Source accepts for a fragment).
func ParsesAsFragment(src []byte) bool {
	if _, err := parser.ParseFile(token.NewFileSet(), "", append([]byte("package p\n"), src...), 0); err == nil {
		return true
	}
	w := "package p\nfunc _() {\n" + string(src) + "\n}\n"
	_, err := parser.ParseFile(token.NewFileSet(), "", w, 0)
	return err == nil
}

func Gofmt(src []byte) ([]byte, bool) {
	out, err := format.Source(src)
	return out, err == nil
}

func Hash(b []byte) string {
	h := sha256.Sum256(b)
	return hex.EncodeToString(h[:8])
}

// CodeTokens returns the code token sequence (comments removed, automatic semicolons kept) as one string per token.
func CodeTokens(src []byte) []string {
	out := []string{}
	for _, t := range scanTokens(src, false) {
		if t.tok == token.SEMICOLON {
			out = append(out, ";")
			continue
		}
		out = append(out, t.lit)
	}
	return out
}

func CommentTokens(src []byte) []string {
	out := []string{}
	for _, t := range scanTokens(src, true) {
		if t.tok == token.COMMENT {
			out = append(out, t.lit)
		}
	}
	return out
}

// AstDump: canonical dump of a file's syntax tree: positions, comments and ParenExpr removed.
func AstDump(src []byte) (string, error) {
	fset := token.NewFileSet()
	f, err := parser.ParseFile(fset, "", src, 0)
	if err != nil {
		return "", err
	}
	var b bytes.Buffer
	dumpNode(&b, f)
	return b.String(), nil
}

func dumpNode(b *bytes.Buffer, n ast.Node) {
	ast.Inspect(n, func(x ast.Node) bool {
		switch v := x.(type) {
		case nil:
			b.WriteString(")")
			return false
		case *ast.ParenExpr:
			dumpNode(b, v.X)
			return false
		case *ast.Ident:
			fmt.Fprintf(b, "(I:%s", v.Name)
		case *ast.BasicLit:
			fmt.Fprintf(b, "(L:%s:%s", v.Kind, v.Value)
		case *ast.BinaryExpr:
			fmt.Fprintf(b, "(Bin:%s", v.Op)
		case *ast.UnaryExpr:
			fmt.Fprintf(b, "(Un:%s", v.Op)
		case *ast.AssignStmt:
			fmt.Fprintf(b, "(As:%s", v.Tok)
		case *ast.IncDecStmt:
			fmt.Fprintf(b, "(Inc:%s", v.Tok)
		case *ast.BranchStmt:
			fmt.Fprintf(b, "(Br:%s", v.Tok)
		case *ast.GenDecl:
			fmt.Fprintf(b, "(Gen:%s:%v", v.Tok, v.Lparen.IsValid())
		case *ast.ChanType:
			fmt.Fprintf(b, "(Chan:%d", v.Dir)
		case *ast.RangeStmt:
			fmt.Fprintf(b, "(Range:%s", v.Tok)
		case *ast.CallExpr:
			fmt.Fprintf(b, "(Call:%v", v.Ellipsis.IsValid())
		case *ast.SliceExpr:
			fmt.Fprintf(b, "(Slice:%v", v.Slice3)
		case *ast.EmptyStmt:
			b.WriteString("(Empty")
		case *ast.CompositeLit:
			b.WriteString("(Comp")
		case *ast.FuncDecl:
			fmt.Fprintf(b, "(FuncDecl:%v", v.Body != nil)
		case *ast.TypeSpec:
			fmt.Fprintf(b, "(TypeSpec:%v", v.Assign.IsValid())
		case *ast.CommentGroup, *ast.Comment:
			return false
		default:
			fmt.Fprintf(b, "(%s", strings.TrimPrefix(fmt.Sprintf("%T", x), "*ast."))
		}
		return true
	})
}

// StripSpace removes all white space (gofmt re-indents and re-flows doc comments).
func StripSpace(s string) string {
	return strings.Map(func(r rune) rune {
		if r == ' ' || r == '\t' || r == '\n' || r == '\r' {
			return -1
		}
		return r
	}, s)
}

// CommentText is the comment jennifer documents for a text: raw when it starts with a comment marker,
// block style when it contains a newline, line style otherwise.
func CommentText(text string) string {
	n := CommentNode(text)
	switch n.St {
	case "raw":
		return text
	case "line":
		return "// " + text
	case "blocknl":
		return "/*\n" + text + "*/"
	}
	return "/*\n" + text + "\n*/"
}
