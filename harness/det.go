package main

// Determinism (C07): the same construction is executed repeatedly from fresh objects (fresh Go maps,
// hence fresh iteration orders) in this process; the orchestrator runs several processes (fresh hash
// seeds) and merges the per-recipe hashes into one trace.

import (
	"bytes"
	"fmt"
	"math/rand"
	"runtime"
	"strconv"
	"sync"

	"github.com/dave/jennifer/jen"
)

// slowWriter consumes what it is given in small pieces and yields the processor between them, the way a
// network connection or a pipe does: bytes handed to Write must stay valid until Write returns.
type slowWriter struct{ buf bytes.Buffer }

func (w *slowWriter) Write(b []byte) (int, error) {
	for i := 0; i < len(b); i += 64 {
		j := i + 64
		if j > len(b) {
			j = len(b)
		}
		w.buf.Write(b[i:j])
		runtime.Gosched()
	}
	return len(b), nil
}

// namesByRef: ImportNames receives the recipe's own map object instead of a copy (sequential use only).
var namesByRef bool

// RunHistory executes a history on a fresh File and returns every output it produced.
func RunHistory(h []Action, noformat bool) []byte { return RunHistoryW(h, noformat, false) }

// RunHistoryW: with slow = true every File.Render writes into a slowWriter.
func RunHistoryW(h []Action, noformat bool, slow bool) (res []byte) {
	var out bytes.Buffer
	defer func() {
		// a DSL call that panics while the trees are built: the history's output is "panic" (and what was rendered before)
		if p := recover(); p != nil {
			out.WriteString("panic while building\n")
			res = out.Bytes()
		}
	}()
	f := newFile(h[0], noformat)
	b := NewBuilder()
	for _, a := range h[1:] {
		switch a.A {
		case "ImportName":
			f.ImportName(a.P, a.N)
		case "ImportAlias":
			f.ImportAlias(a.P, a.N)
		case "ImportNames":
			m := map[string]string{}
			for k, v := range a.M {
				m[k] = v
			}
			if namesByRef {
				// a generator that keeps ONE names table and hands the same map object to every File it builds
				m = a.M
			}
			f.ImportNames(m)
		case "Anon":
			f.Anon(a.P)
		case "Preamble":
			f.CgoPreamble(a.N)
		case "Add":
			f.Add(b.Code(a.Tree))
		case "Render":
			r := renderFile(f)
			if slow {
				r = safely(func() ([]byte, error) {
					w := &slowWriter{}
					err := f.Render(w)
					return w.buf.Bytes(), err
				})
			}
			out.WriteString(r.status + "\n")
			out.Write(r.out)
		case "Frag":
			s := NewBuilder().Stmt(a.Tree)
			r := safely(func() ([]byte, error) {
				var buf bytes.Buffer
				err := s.RenderWithFile(&buf, f)
				return buf.Bytes(), err
			})
			out.WriteString(r.status + "\n")
			out.Write(r.out)
		}
	}
	return out.Bytes()
}

// DetDriver: recipes rich in Go maps (Dict, Tag, ImportNames, many imports, Anon sets), kept away from the
// trigger classes of the known findings (two keys of one Dict that render identically; Dict keys that
// reference two not yet imported paths with the same base name).
func DetDriver(r *rand.Rand, n int) [][]Action {
	out := [][]Action{}
	for i := 0; i < n; i++ {
		st := &symtab{}
		h := []Action{newAct("", []string{"", "pkg"}[r.Intn(2)])}
		// a hint map
		if r.Intn(2) == 0 {
			m := map[string]string{}
			for j := 0; j < 3+r.Intn(18); j++ {
				m["hint/p"+strconv.Itoa(j)] = "n" + strconv.Itoa(j%7)
			}
			h = append(h, Action{A: "ImportNames", M: m})
		}
		// many imports, colliding base names (registered in body order: deterministic)
		nimp := 2 + r.Intn(14)
		for j := 0; j < nimp; j++ {
			p := fmt.Sprintf("m%d/%s", j, []string{"d", "e", "fmt", "d", "pkg"}[r.Intn(5)])
			if r.Intn(5) == 0 {
				p = "hint/p" + strconv.Itoa(r.Intn(20))
			}
			h = append(h, Action{A: "Add", Tree: varQ(p, st.sym(p))})
		}
		for j := 0; j < r.Intn(4); j++ {
			h = append(h, Action{A: "Anon", P: "anon/a" + strconv.Itoa(j)})
		}
		// a Dict with many pairs: identifier / literal / already imported qualified keys, qualified values
		np := 2 + r.Intn(11)
		big := i%5 == 4
		if big {
			// a LARGE Dict: dozens of pairs, keys that are long and share a long prefix, every value qualified with a
			// package of its own, all of them competing for one name
			np = 36 + r.Intn(40)
		}
		d := &Node{K: "dict"}
		keyTexts := map[string]bool{}
		for j := 0; j < np; j++ {
			var key *Node
			kind := r.Intn(5)
			if big && r.Intn(3) != 0 {
				kind = 5
			}
			switch kind {
			case 5:
				key = stm(lit(strconv.Quote("a/very/long/common/prefix/that/all/the/keys/of/this/table/share/with/each/other/" + strconv.Itoa(j*7919%1000))))
			case 0:
				key = stm(idn("K" + strconv.Itoa(j)))
			case 1:
				key = stm(lit(strconv.Itoa(j)))
			case 2:
				// numeric keys of mixed shapes: integers of different widths, floats, negative numbers, constant expressions
				// that begin with a digit (every text is distinct within one Dict: j is part of it)
				switch r.Intn(5) {
				case 0:
					key = stm(lit(strconv.Itoa(1000 + j*[]int{1, 7, 10, 100, 1001}[r.Intn(5)])))
				case 1:
					key = stm(lit(strconv.Itoa(j) + "." + strconv.Itoa(1+r.Intn(9))))
				case 2:
					key = stm(lit("-" + strconv.Itoa(j+1)))
				case 3:
					key = stm(lit(strconv.Itoa(j+1)), opn("<<"), lit(strconv.Itoa(1+r.Intn(9))))
				default:
					key = stm(lit(strconv.Itoa(j)+"."+strconv.Itoa(1+r.Intn(9))), opn("+"), lit("0"))
				}
			case 3:
				key = stm(lit(strconv.Quote([]string{"", "a", "B", "10", "2", "_", "é"}[r.Intn(7)] + strconv.Itoa(j))))
			default:
				p := "m0/d" // referenced before the Dict, so already imported when the Dict is rendered
				key = stm(grp("qual", &Node{K: "tok", T: "pkg", V: p}, idn("Key"+strconv.Itoa(j))))
				st.m["Key"+strconv.Itoa(j)] = p
			}
			kt := ""
			for _, it := range key.Items {
				kt += it.V + " "
			}
			if keyTexts[kt] { // two keys with the same text are the trigger class of the known finding F6b
				key = stm(idn("K" + strconv.Itoa(j)))
			}
			keyTexts[kt] = true
			p := fmt.Sprintf("v%d/%s", r.Intn(4), []string{"d", "val"}[r.Intn(2)])
			if big {
				p = fmt.Sprintf("gen/v%d/model", j)
			}
			val := stm(grp("qual", &Node{K: "tok", T: "pkg", V: p}, idn(st.sym(p))))
			d.Items = append(d.Items, &Node{K: "pair", Items: []*Node{key, val}})
			d.Order = append(d.Order, j+1)
		}
		h = append(h, Action{A: "Add", Tree: varQ("m0/d", st.sym("m0/d"))})
		if i%3 == 0 {
			// two keys with the SAME identifier from two packages of the same base name, both imported before the Dict is
			// reached (so that their qualifiers are settled): d.Same and d1.Same have their order
			h = append(h, Action{A: "Add", Tree: varQ("m1/d", st.sym("m1/d"))})
			for _, p := range []string{"m1/d", "m0/d"} {
				key := stm(grp("qual", &Node{K: "tok", T: "pkg", V: p}, idn("Same")))
				d.Items = append(d.Items, &Node{K: "pair", Items: []*Node{key, stm(lit(strconv.Itoa(len(d.Items))))}})
				d.Order = append(d.Order, len(d.Items))
			}
		}
		h = append(h, Action{A: "Add", Tree: stm(kwn("var"), idn("_"), opn("="), idn("T"), grp("values", d))})
		// a struct with tags of several keys
		fields := []*Node{}
		for j := 0; j < 1+r.Intn(3); j++ {
			m := map[string]string{}
			for k := 0; k < 2+r.Intn(5); k++ {
				m[[]string{"json", "xml", "db", "JSON", "form", "Json", "toml"}[k]] = "v" + strconv.Itoa(r.Intn(100)) // keys that differ only by case
			}
			if r.Intn(3) == 0 {
				// keys that differ only by surrounding white space (unconventional, but one construction must still give one output)
				m["json "], m[" json"], m["\tjson"] = "w1", "w2", "w3"
			}
			fields = append(fields, stm(idn("F"+strconv.Itoa(j)), idn("int"), tagNode(m)))
		}
		h = append(h, Action{A: "Add", Tree: stm(kwn("type"), idn("S"), grp("struct", fields...))})
		h = append(h, Action{A: "Render"}, Action{A: "Render"})
		out = append(out, h)
	}
	return out
}

func cmdDet(args []string) {
	// usage: det <out.ndjson> <stats.json> <n> <repeats>
	tw := NewTraceWriter(args[0])
	n, _ := strconv.Atoi(args[2])
	repeats, _ := strconv.Atoi(args[3])
	r := newRand(777)
	hs := DetDriver(r, n)
	for i, h := range hs {
		tw.Traces++
		hashes := map[string]bool{}
		first := ""
		for k := 0; k < repeats; k++ {
			hh := Hash(RunHistory(h, false)) + Hash(RunHistory(h, true))
			if k == 0 {
				first = hh
			}
			hashes[hh] = true
		}
		// a generator that keeps one names table for all its Files: the recipe is built with the table object itself, then
		// ANOTHER File receives the same table and, in a second ImportNames call, names of its own for the paths the
		// recipe uses, then the recipe is built again - the same construction, hence the same bytes (a File that writes
		// into the table it was given changes what the next build of the recipe sees)
		if len(h) > 1 && h[1].A == "ImportNames" {
			namesByRef = true
			hashes[Hash(RunHistory(h, false))+Hash(RunHistory(h, true))] = true
			more := map[string]string{}
			for j := 0; j < 20; j++ {
				more["hint/p"+strconv.Itoa(j)] = "hh" + strconv.Itoa(j)
				for _, b := range []string{"d", "e", "fmt", "pkg"} {
					more[fmt.Sprintf("m%d/%s", j, b)] = "zz" + strconv.Itoa(j) + b
				}
			}
			safelyBytes(func() []byte {
				fa := jen.NewFile("main")
				fa.ImportNames(h[1].M)
				fa.ImportNames(more)
				fa.Var().Id("_").Op("=").Qual("m0/d", "X")
				return []byte(fa.GoString())
			})
			hashes[Hash(RunHistory(h, false))+Hash(RunHistory(h, true))] = true
			namesByRef = false
			tw.Distinct("shared_table_rounds", strconv.Itoa(i))
		}
		// the same construction on several goroutines at once, written through slow writers: still the same bytes
		if i%4 == 0 {
			var mu sync.Mutex
			var wg sync.WaitGroup
			for g := 0; g < 8; g++ {
				wg.Add(1)
				go func() {
					defer wg.Done()
					hh := Hash(RunHistoryW(h, false, true)) + Hash(RunHistoryW(h, true, true))
					mu.Lock()
					hashes[hh] = true
					mu.Unlock()
				}()
			}
			wg.Wait()
		}
		tw.Emit(Rec{"ev": "det", "id": i + 1, "nhash": len(hashes), "hash": first})
		tw.Distinct("recipes", first)
		if i < 2 {
			tw.Sample(Rec{"recipe_actions": len(h), "output_head": string(RunHistory(h, false)[:200])})
		}
	}
	_ = jen.NewFile
	tw.Close(args[1])
}
