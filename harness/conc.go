package main

// C09: Files do not interfere. (i) TLC-generated interleavings of register steps replayed with the
// register hook as scheduler gate, (ii) every order of rendering a set of Files that share statements,
// (iii) free-running goroutines (this file is also built with -race).

import (
	"bytes"
	"encoding/json"
	"fmt"
	"io"
	"math"
	"os"
	"os/exec"
	"reflect"
	"sort"
	"strconv"
	"strings"
	"sync"

	"github.com/dave/jennifer/jen"
)

var concBase = []string{"x/d", "y/d", "z/d"}

func concRefPath(j, r int) string { return concBase[(r+j)%3] }

func concJobFile(j, refs int) *jen.File {
	f := jen.NewFile("main")
	f.NoFormat = true
	if j%2 == 0 {
		f.PackagePrefix = "pkg"
	}
	for r := 1; r <= refs; r++ {
		f.Var().Id("_").Op("=").Qual(concRefPath(j, r), "S"+strconv.Itoa(r))
	}
	return f
}

type concJob struct {
	f       *jen.File
	arrive  chan struct{}
	release chan struct{}
	done    chan renderResult
	res     *renderResult
}

func runSchedule(sched []int, njobs, refs int) []renderResult {
	jobs := map[int]*concJob{}
	byFile := map[*jen.File]*concJob{}
	for j := 1; j <= njobs; j++ {
		jb := &concJob{f: concJobFile(j, refs), arrive: make(chan struct{}), release: make(chan struct{}), done: make(chan renderResult, 1)}
		jobs[j] = jb
		byFile[jb.f] = jb
	}
	jen.VerifHook = func(point string, f *jen.File, arg string) {
		if point != "register" {
			return
		}
		if jb := byFile[f]; jb != nil {
			jb.arrive <- struct{}{}
			<-jb.release
		}
	}
	defer func() { jen.VerifHook = nil }()
	for _, jb := range jobs {
		go func(jb *concJob) { jb.done <- renderFile(jb.f) }(jb)
	}
	step := func(jb *concJob) {
		if jb.res != nil {
			return
		}
		select {
		case <-jb.arrive:
			jb.release <- struct{}{}
		case r := <-jb.done:
			jb.res = &r
		}
	}
	for _, j := range sched {
		step(jobs[j])
	}
	out := []renderResult{}
	for j := 1; j <= njobs; j++ {
		for jobs[j].res == nil {
			step(jobs[j])
		}
		out = append(out, *jobs[j].res)
	}
	return out
}

func cmdConcSched(args []string) {
	// usage: conc-sched <out.ndjson> <stats.json> <refs> <schedules.ndjson>
	tw := NewTraceWriter(args[0])
	refs, _ := strconv.Atoi(args[2])
	id := 0
	seen := map[string]bool{}
	readLines(args[3], func(line []byte) {
		if seen[string(line)] {
			return
		}
		seen[string(line)] = true
		var sched []int
		decodeTLCLine(line, &sched)
		njobs := 0
		for _, j := range sched {
			if j > njobs {
				njobs = j
			}
		}
		id++
		tw.Traces++
		res := runSchedule(sched, njobs, refs)
		for j := 1; j <= njobs; j++ {
			solo := renderFile(concJobFile(j, refs))
			tw.Emit(Rec{"ev": "sched", "id": id, "job": j, "refs": refs, "schedule": sched, "status": res[j-1].status,
				"got": string(res[j-1].out), "solo": string(solo.out), "solostatus": solo.status})
		}
		tw.Distinct("schedules", fmt.Sprint(sched))
		if id <= 2 {
			tw.Sample(Rec{"schedule": sched, "job1_output": string(res[0].out)})
		}
	})
	tw.Close(args[1])
}

// ---- (ii) orders of rendering Files that share statements ----

type orderFileSpec struct {
	Local  string            `json:"local"`
	Prefix string            `json:"prefix"`
	Dots   []string          `json:"dots"`
	Alias  map[string]string `json:"alias"`
	Own    []string          `json:"own"`
	Idents []string          `json:"idents"` // predeclared-identifier helpers (Rune, String, ...) this File chains onto / uses as operands
	Lits   []int             `json:"lits"`   // indices into orderLits: the literals this File contains
	// DictKey: the File holds a Dict with one qualified key (this path) next to identifier keys whose texts lie between
	// the qualifier the path gets in this File alone and the one it would get after other same-named paths
	DictKey string `json:"dictkey"`
}

// literals whose texts could be confused by a table shared between Files: +0 / -0 of every float kind, equal numbers of
// different types, equal strings
func orderLits() []interface{} {
	nz := math.Copysign(0, -1)
	return []interface{}{0.0, nz, float32(0), float32(nz), complex(0, 0), complex(nz, nz), 1, int64(1), uint8(1), 1.0, float32(1), "s", "S", true, false, 0.1, float32(0.1), float64(float32(0.1))}
}

// orderRound is one round of the orders experiment: Files that share statements (serialisable, so that a fresh process
// can build one File of it alone).
type orderRound struct {
	Specs       []orderFileSpec `json:"specs"`
	SharedPaths [][]string      `json:"shared"`
	CaseBlock   bool            `json:"caseblock"`
	FuncForms   bool            `json:"funcforms"` // shared statements are built through ...Func variants
	// Table: a name table (as gennames writes it) that EVERY File of the round is given through ImportNames - one map
	// object for all of them; More: a second ImportNames call that only File 0 makes (names for paths other Files use too)
	Table map[string]string `json:"table"`
	More  map[string]string `json:"more"`
	// Grow: after File i has been built (and before anything is rendered) the generator goes on using the SAME table
	// object for the next File and adds names to it - also for paths that File i references
	Grow []map[string]string `json:"grow"`
}

// identHelpers: the package functions of the tree under test that name a predeclared identifier (Bool(), String(), Err() ...)
func identHelpers() []string {
	out := []string{}
	for n, f := range pkgFuncs {
		t := reflect.TypeOf(f)
		if t.NumIn() == 0 && t.NumOut() == 1 && isPlainPredeclared(strings.ToLower(n[:1])+n[1:]) {
			out = append(out, n)
		}
	}
	sort.Strings(out)
	return out
}

func callHelper(n string) *jen.Statement {
	return reflect.ValueOf(pkgFuncs[n]).Call(nil)[0].Interface().(*jen.Statement)
}

// build: shared statements are the SAME objects in every File of one build
func (rd *orderRound) build(which []int) []*jen.File {
	shared := []*jen.Statement{}
	for s, ps := range rd.SharedPaths {
		vals := []jen.Code{}
		for k, p := range ps {
			vals = append(vals, jen.Qual(p, "Sh"+strconv.Itoa(s)+strconv.Itoa(k)))
		}
		var st *jen.Statement
		if rd.FuncForms {
			st = jen.Var().Id("_").Op("=").Index().Id("T").ValuesFunc(func(g *jen.Group) {
				for _, v := range vals {
					g.Add(v)
				}
			})
		} else {
			st = jen.Var().Id("_").Op("=").Index().Id("T").Values(vals...)
		}
		shared = append(shared, st)
	}
	if rd.CaseBlock {
		shared = append(shared, jen.Func().Id("sw").Params().Block(jen.Switch().Block(jen.Default().Block(), jen.Case(jen.Lit(1)).Block(jen.Qual("x/d", "InCase")))))
	}
	var table map[string]string // ONE object, handed to every File
	if len(rd.Table) > 0 {
		table = map[string]string{}
		for k, v := range rd.Table {
			table[k] = v
		}
	}
	files := []*jen.File{}
	grown := 0 // the table has received Grow[0 .. grown-1]
	for _, i := range which {
		// what the generator added to the table while it prepared the Files before this one is in it when this File gets
		// it (whether or not those Files are built here); what it adds afterwards comes after this File's ImportNames call
		for ; table != nil && grown < i && grown < len(rd.Grow); grown++ {
			for k, v := range rd.Grow[grown] {
				table[k] = v
			}
		}
		sp := rd.Specs[i]
		var f *jen.File
		if sp.Local != "" {
			f = jen.NewFilePathName(sp.Local, "main")
		} else {
			f = jen.NewFile("main")
		}
		f.PackagePrefix = sp.Prefix
		f.NoFormat = true
		for _, d := range sp.Dots {
			f.ImportAlias(d, ".")
		}
		ks := []string{}
		for p := range sp.Alias {
			ks = append(ks, p)
		}
		sort.Strings(ks)
		for _, p := range ks {
			f.ImportAlias(p, sp.Alias[p])
		}
		if table != nil {
			f.ImportNames(table)
			if i == 0 && len(rd.More) > 0 {
				more := map[string]string{}
				for k, v := range rd.More {
					more[k] = v
				}
				f.ImportNames(more)
			}
		}
		for k, p := range sp.Own {
			f.Var().Id("_").Op("=").Qual(p, "Own"+strconv.Itoa(k))
		}
		if sp.DictKey != "" {
			f.Var().Id("_").Op("=").Id("T").Values(jen.Dict{
				jen.Qual(sp.DictKey, "A"): jen.Lit(1), jen.Id("d0"): jen.Lit(2), jen.Id("pkg_d0"): jen.Lit(3), jen.Id("p2_d0"): jen.Lit(4), jen.Id("a"): jen.Lit(5), jen.Id("z"): jen.Lit(6),
			})
		}
		// predeclared identifiers through their helper functions: chained onto, and as operands of other constructs
		for k, h := range sp.Idents {
			if k%2 == 0 {
				f.Var().Id("c" + strconv.Itoa(k)).Op("=").Add(callHelper(h).Parens(jen.Id("v")))
			} else {
				f.Var().Id("m" + strconv.Itoa(k)).Map(callHelper(h)).Add(callHelper(sp.Idents[k-1]))
			}
		}
		lits := orderLits()
		for k, li := range sp.Lits {
			f.Var().Id("l" + strconv.Itoa(k)).Op("=").Lit(lits[li%len(lits)])
		}
		for _, st := range shared {
			f.Add(st)
		}
		files = append(files, f)
	}
	return files
}

// freshSolo renders File i of the round alone in a NEW process: nothing any other File did can have influenced it.
func freshSolo(rd *orderRound, i int) renderResult {
	b, _ := json.Marshal(rd)
	cmd := exec.Command(os.Args[0], "conc-solo", strconv.Itoa(i))
	cmd.Stdin = bytes.NewReader(b)
	cmd.Env = os.Environ()
	out, err := cmd.Output()
	if err != nil {
		fatal("conc-solo failed: " + err.Error())
	}
	var r struct{ Status, Out string }
	if err := json.Unmarshal(out, &r); err != nil {
		fatal(err)
	}
	return renderResult{status: r.Status, out: []byte(r.Out)}
}

func cmdConcSolo(args []string) {
	i, _ := strconv.Atoi(args[0])
	var rd orderRound
	in, _ := io.ReadAll(os.Stdin)
	if err := json.Unmarshal(in, &rd); err != nil {
		fatal(err)
	}
	r := renderFile(rd.build([]int{i})[0])
	b, _ := json.Marshal(struct{ Status, Out string }{r.status, string(r.out)})
	os.Stdout.Write(b)
}

func permutations(n int) [][]int {
	if n == 0 {
		return [][]int{{}}
	}
	out := [][]int{}
	for _, p := range permutations(n - 1) {
		for i := 0; i <= len(p); i++ {
			q := append(append(append([]int{}, p[:i]...), n-1), p[i:]...)
			out = append(out, q)
		}
	}
	return out
}

func cmdConcOrders(args []string) {
	// usage: conc-orders <out.ndjson> <stats.json> <rounds>
	tw := NewTraceWriter(args[0])
	rounds, _ := strconv.Atoi(args[2])
	r := newRand(31337)
	id := 0
	helpers := identHelpers()
	for round := 0; round < rounds; round++ {
		nfiles := 3 + r.Intn(2)
		rd := &orderRound{CaseBlock: r.Intn(2) == 0, FuncForms: round%2 == 1}
		// (paths whose guessed alias differs from their last element, with and without a dot in the first element)
		pool := []string{"x/d", "y/d", "fmt", "loc/al", "dot/p", "z/d", "shop/db_models", "shop/DB-models", "a.b/c_d", "v/2x"}
		for i := 0; i < nfiles; i++ {
			sp := orderFileSpec{Alias: map[string]string{}, Dots: []string{}, Own: []string{}, Idents: []string{}, Lits: []int{}}
			for k := 0; k < r.Intn(4); k++ {
				sp.Lits = append(sp.Lits, r.Intn(18))
			}
			sp.Prefix = []string{"", "pkg", "p2"}[r.Intn(3)]
			if r.Intn(3) == 0 {
				sp.Local = pool[r.Intn(len(pool))]
			}
			if r.Intn(3) == 0 {
				sp.Dots = append(sp.Dots, pool[r.Intn(len(pool))])
			}
			if r.Intn(3) == 0 {
				sp.Alias[pool[r.Intn(len(pool))]] = []string{"d", "q", "fmt"}[r.Intn(3)]
			}
			for k := 0; k < r.Intn(3); k++ {
				sp.Own = append(sp.Own, pool[r.Intn(len(pool))])
			}
			if len(helpers) > 0 && r.Intn(2) == 0 {
				// a run of neighbouring helpers (they are generated next to each other) and a few random ones
				at := r.Intn(len(helpers))
				for k := 0; k < 2+r.Intn(4); k++ {
					sp.Idents = append(sp.Idents, helpers[(at+k)%len(helpers)])
				}
			}
			if r.Intn(2) == 0 {
				sp.DictKey = []string{"x/d", "y/d", "z/d"}[r.Intn(3)]
			}
			rd.Specs = append(rd.Specs, sp)
		}
		if round%2 == 0 {
			// the same table for every File; File 0 then learns more names - for paths that the other Files reference too
			rd.Table = map[string]string{"shop/db_models": "models", "tab/one": "one", "tab/two": "two"}
			rd.More = map[string]string{"shop/DB-models": "models2", "a.b/c_d": "cd", "v/2x": "twox"}
			for i := 0; i < nfiles; i++ {
				gp := pool[r.Intn(len(pool))]
				if StdName(gp) != "" {
					gp = "y/d" // (no claims about standard packages)
				}
				rd.Grow = append(rd.Grow, map[string]string{gp: "grown" + strconv.Itoa(i), "z/d": "zd" + strconv.Itoa(i)})
			}
		}
		for s := 0; s < 1+r.Intn(3); s++ {
			ps := []string{}
			for k := 0; k < 1+r.Intn(3); k++ {
				ps = append(ps, pool[r.Intn(len(pool))])
			}
			rd.SharedPaths = append(rd.SharedPaths, ps)
		}
		// the reference for every File: built and rendered alone - in this process, and in a fresh process
		solo := []renderResult{}
		for i := 0; i < nfiles; i++ {
			solo = append(solo, freshSolo(rd, i))
		}
		tw.Stats["fresh_process_solo_renders"] += nfiles
		if round%3 == 1 {
			// MANY other imports first: a File with several hundred paths that nobody has seen before is built and rendered
			// in this process (not in the fresh processes of the references) - whatever the library remembers per process
			// (names guessed, names handed out, text formatted) is filled far beyond what a few Files do
			ff := jen.NewFile("flood")
			for k := 0; k < 700; k++ {
				ff.Var().Id("_").Op("=").Qual(fmt.Sprintf("flood/r%d/k%d/p%d", round, k, k%9), "X")
			}
			renderFile(ff)
			tw.Stats["flood_files_of_700_imports"]++
		}
		for _, perm := range permutations(nfiles) {
			id++
			tw.Traces++
			all := []int{}
			for i := 0; i < nfiles; i++ {
				all = append(all, i)
			}
			files := rd.build(all)
			got := make([]renderResult, nfiles)
			for _, i := range perm {
				got[i] = renderFile(files[i])
			}
			for i := 0; i < nfiles; i++ {
				tw.Emit(Rec{"ev": "order", "id": id, "job": i + 1, "order": perm, "status": got[i].status,
					"got": string(got[i].out), "solo": string(solo[i].out), "solostatus": solo[i].status})
			}
			tw.Distinct("orders", fmt.Sprint(round, perm))
		}
		if round < 2 {
			tw.Sample(Rec{"files": nfiles, "shared_statements": rd.SharedPaths, "file1_solo": string(solo[0].out)})
		}
	}
	tw.Close(args[1])
}

// ---- (iii) free-running goroutines ----

func cmdConcFree(args []string) {
	// usage: conc-free <out.ndjson> <stats.json> <table.json> <jobs> <rounds>
	tw := NewTraceWriter(args[0])
	njobs, _ := strconv.Atoi(args[3])
	rounds, _ := strconv.Atoi(args[4])
	id := 0
	for round := 0; round < rounds; round++ {
		hs := ComposeDriverSeeded(args[2], njobs, int64(round))
		// half of the jobs import many paths nobody has seen before (process-wide caches, if any, fill up and turn over)
		for i := range hs {
			if i%2 == 0 {
				st := &symtab{}
				h := []Action{newAct("", "")}
				for k := 0; k < 24; k++ {
					p := fmt.Sprintf("fresh/r%dj%dk%d/pkg%d", round, i, k, k%2) // (a dozen competitors per name: numeric suffixes of two digits)
					if k%3 == 0 {
						// last elements that are no identifiers as they stand (go-redis, yaml.v3): the guessed name is a cleaned-up one
						p = fmt.Sprintf("fresh/r%dj%dk%d/%s", round, i, k, []string{"go-redis", "yaml.v3", "Upper_Case", "9lives"}[k/3%4])
					}
					h = append(h, Action{A: "Add", Tree: varQ(p, st.sym(p))})
				}
				h[0].Ctor = "NewFilePath"
				h[0].Local = fmt.Sprintf("fresh/local/r%dj%d", round, i)
				hs[i] = append(h, Action{A: "Render"})
			}
		}
		// every third job renders with NoFormat; all jobs write through slow writers (the bytes handed to Write must
		// stay valid while other goroutines render)
		nf := func(i int) bool { return i%3 == 1 }
		// the goroutines run FIRST: whatever the library fills lazily and keeps for the whole process (a table of tokens,
		// of names, of formatted fragments) is then filled by concurrent first uses, where the race detector sees it;
		// the solo runs that the outputs are compared with come afterwards (even rounds) or before (odd rounds)
		solo := make([][]byte, len(hs))
		soloRuns := func() {
			for i, h := range hs {
				solo[i] = RunHistoryW(h, nf(i), true)
			}
		}
		if round%2 == 1 {
			soloRuns()
		}
		got := make([][]byte, len(hs))
		var wg sync.WaitGroup
		for i := range hs {
			wg.Add(1)
			go func(i int) {
				defer wg.Done()
				got[i] = RunHistoryW(hs[i], nf(i), true)
			}(i)
		}
		wg.Wait()
		if round%2 == 0 {
			soloRuns()
		}
		for i := range hs {
			id++
			tw.Traces++
			tw.Emit(Rec{"ev": "free", "id": id, "job": i + 1, "status": "nil", "solostatus": "nil", "got": Hash(got[i]), "solo": Hash(solo[i])})
			tw.Distinct("jobs", Hash(solo[i]))
		}
	}
	_ = bytes.MinRead
	tw.Close(args[1])
}
