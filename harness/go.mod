module verifharness

go 1.20

require github.com/dave/jennifer v0.0.0

replace github.com/dave/jennifer => /repo
