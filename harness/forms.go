package main

// C14: (a) every exported construct of the package under test (enumerated at check time: package
// functions from the source through genapi, methods through reflection) is built in every form with
// synthesised arguments and rendered; (b) TLC-generated trees with a choice of form at every node are
// built while every user callback logs an event.

import (
	"bytes"
	"encoding/json"
	"fmt"
	"io"
	"os"
	"reflect"
	"sort"
	"strconv"
	"strings"

	"github.com/dave/jennifer/jen"
)

var stmtType = reflect.TypeOf((*jen.Statement)(nil))
var groupType = reflect.TypeOf((*jen.Group)(nil))
var codeType = reflect.TypeOf((*jen.Code)(nil)).Elem()

type evLog struct{ evs []Rec }

const noVariadic = -7 // synth: leave the variadic part empty, strings contain formatting verbs

func (l *evLog) add(e, id string) { l.evs = append(l.evs, Rec{"e": e, "id": id}) }

// synth builds an argument list for fn. Callbacks log "cb" with the given id.
func synth(ft reflect.Type, log *evLog, id string, salt int) ([]reflect.Value, bool) {
	args := []reflect.Value{}
	for i := 0; i < ft.NumIn(); i++ {
		pt := ft.In(i)
		variadic := ft.IsVariadic() && i == ft.NumIn()-1
		if variadic && salt == noVariadic {
			continue // call with no variadic operands at all
		}
		if salt == noVariadic && pt.Kind() == reflect.String {
			args = append(args, reflect.ValueOf("100%% of %s"))
			continue
		}
		if variadic {
			et := pt.Elem()
			switch {
			case et == codeType:
				args = append(args, reflect.ValueOf(jen.Id("x")), reflect.ValueOf(jen.Lit(1+salt)))
			case et.Kind() == reflect.Interface:
				args = append(args, reflect.ValueOf("v"), reflect.ValueOf(2))
			case et.Kind() == reflect.String:
				args = append(args, reflect.ValueOf("p/a"), reflect.ValueOf("p/b"))
			default:
				return nil, false
			}
			continue
		}
		switch {
		case pt == codeType:
			args = append(args, reflect.ValueOf(jen.Id("a"+fmt.Sprint(i))))
		case pt.Kind() == reflect.String:
			args = append(args, reflect.ValueOf([]string{"s", "t/u", "N"}[i%3]))
		case pt.Kind() == reflect.Int32:
			args = append(args, reflect.ValueOf(rune('x')))
		case pt.Kind() == reflect.Uint8:
			args = append(args, reflect.ValueOf(byte(7)))
		case pt.Kind() == reflect.Interface:
			args = append(args, reflect.ValueOf(42))
		case pt == reflect.TypeOf(jen.Options{}):
			args = append(args, reflect.ValueOf(jen.Options{Open: "<", Close: ">", Separator: ","}))
		case pt == reflect.TypeOf(map[string]string{}):
			args = append(args, reflect.ValueOf(map[string]string{"json": "a", "db": "b"}))
		case pt.Kind() == reflect.Func:
			switch {
			case pt.NumIn() == 1 && pt.In(0) == groupType:
				args = append(args, reflect.ValueOf(func(g *jen.Group) { log.add("cb", id); g.Id("x"); g.Lit(1 + salt) }))
			case pt.NumIn() == 1 && pt.In(0) == stmtType:
				args = append(args, reflect.ValueOf(func(s *jen.Statement) { log.add("cb", id); s.Id("d") }))
			case pt.NumIn() == 1 && pt.In(0) == reflect.TypeOf(jen.Dict{}):
				args = append(args, reflect.ValueOf(func(d jen.Dict) { log.add("cb", id); d[jen.Id("k")] = jen.Lit(1) }))
			case pt.NumIn() == 0 && pt.NumOut() == 1 && pt.Out(0).Kind() == reflect.Interface:
				args = append(args, reflect.ValueOf(func() interface{} { log.add("cb", id); return 42 }))
			case pt.NumIn() == 0 && pt.NumOut() == 1 && pt.Out(0).Kind() == reflect.Int32:
				args = append(args, reflect.ValueOf(func() rune { log.add("cb", id); return 'x' }))
			case pt.NumIn() == 0 && pt.NumOut() == 1 && pt.Out(0).Kind() == reflect.Uint8:
				args = append(args, reflect.ValueOf(func() byte { log.add("cb", id); return 7 }))
			default:
				return nil, false
			}
		default:
			return nil, false
		}
	}
	return args, true
}

func hasCallback(ft reflect.Type) bool {
	for i := 0; i < ft.NumIn(); i++ {
		if ft.In(i).Kind() == reflect.Func {
			return true
		}
	}
	return false
}

func renderAll(s *jen.Statement) (gostring, render, withfile string) {
	one := func(fn func() ([]byte, error)) string {
		r := safely(fn)
		if r.status == "panic" {
			return "error:" // GoString panics on error by design
		}
		if r.status == "error" {
			return "error:"
		}
		return "nil:" + string(r.out)
	}
	gostring = one(func() ([]byte, error) { return []byte(s.GoString()), nil })
	render = one(func() ([]byte, error) { var b bytes.Buffer; err := s.Render(&b); return b.Bytes(), err })
	withfile = one(func() ([]byte, error) {
		var b bytes.Buffer
		err := s.RenderWithFile(&b, jen.NewFile(""))
		return b.Bytes(), err
	})
	return
}

// rawOf: NoFormat rendering of a statement as the only item of a File (works for fragments gofmt rejects).
func rawOf(s *jen.Statement) string {
	r := safely(func() ([]byte, error) {
		f := jen.NewFile("main")
		f.NoFormat = true
		f.Add(s)
		var b bytes.Buffer
		err := f.Render(&b)
		return b.Bytes(), err
	})
	return r.status + ":" + string(r.out)
}

func apiNames() (names []string, pkg, st, gr map[string]reflect.Value) {
	pkg, st, gr = map[string]reflect.Value{}, map[string]reflect.Value{}, map[string]reflect.Value{}
	all := map[string]bool{}
	for n, f := range pkgFuncs {
		v := reflect.ValueOf(f)
		if v.Type().NumOut() == 1 && v.Type().Out(0) == stmtType {
			pkg[n] = v
			all[n] = true
		}
	}
	for i := 0; i < stmtType.NumMethod(); i++ {
		m := stmtType.Method(i)
		if m.Type.NumOut() == 1 && m.Type.Out(0) == stmtType && m.Name != "Clone" {
			st[m.Name] = reflect.Value{}
			all[m.Name] = true
		}
	}
	for i := 0; i < groupType.NumMethod(); i++ {
		m := groupType.Method(i)
		if m.Type.NumOut() == 1 && m.Type.Out(0) == stmtType {
			gr[m.Name] = reflect.Value{}
			all[m.Name] = true
		}
	}
	names = sortedKeys(all)
	return
}

func cmdForms(args []string) {
	// usage: forms <out.ndjson> <stats.json> <table.json> <trees.ndjson>
	tw := NewTraceWriter(args[0])
	table := LoadTable(args[2])
	names, pkg, st, gr := apiNames()
	id := 0
	// (a) every construct of the API, every form
	for _, name := range names {
		id++
		tw.Traces++
		_, hasPkg := pkg[name]
		_, hasSt := st[name]
		_, hasGr := gr[name]
		rec := Rec{"ev": "form", "id": id, "name": name, "haspkg": hasPkg, "hasstmt": hasSt, "hasgroup": hasGr,
			"funcname": "", "hasfunc": false, "wantfunc": false}
		base := name
		lower := strings.ToLower(base[:1]) + base[1:]
		if e, ok := table.Groups[lower]; ok {
			rec["wantfunc"] = e.Arity < 0 && lower != "make"
			_, hf := pkg[name+"Func"]
			rec["hasfunc"] = hf
		}
		outs := map[string]string{"func": "", "stmt": "", "group": "", "grouptail": "", "functail": "", "funcv": "", "viaadd": ""}
		logs := []Rec{}
		ok := hasPkg && hasSt && hasGr
		if ok {
			log := &evLog{}
			ft := pkg[name].Type()
			isCb := hasCallback(ft)
			build := func(form string) *jen.Statement {
				var res *jen.Statement
				r := safely(func() ([]byte, error) {
					a, can := synth(ft, log, name+"/"+form, 0)
					if !can {
						return nil, fmt.Errorf("cannot synthesise arguments")
					}
					log.add("begin", name+"/"+form)
					switch form {
					case "func":
						res = pkg[name].Call(a)[0].Interface().(*jen.Statement)
					case "stmt":
						s := jen.Add()
						res = reflect.ValueOf(s).MethodByName(name).Call(a)[0].Interface().(*jen.Statement)
					case "functail":
						res = pkg[name].Call(a)[0].Interface().(*jen.Statement)
						res.Id("tail")
					case "grouptail":
						// the Group form: append to a group, return the new statement; what is appended to the
						// returned statement must show in the group
						res = jen.CustomFunc(jen.Options{}, func(g *jen.Group) {
							r := reflect.ValueOf(g).MethodByName(name).Call(a)[0].Interface().(*jen.Statement)
							r.Id("tail")
						})
					case "group":
						res = jen.CustomFunc(jen.Options{}, func(g *jen.Group) {
							reflect.ValueOf(g).MethodByName(name).Call(a)
						})
					}
					log.add("end", name+"/"+form)
					return nil, nil
				})
				if r.status != "nil" {
					rec["builderror"] = r.status + " " + r.msg
					return nil
				}
				return res
			}
			for _, form := range []string{"func", "stmt", "group", "grouptail", "functail"} {
				s := build(form)
				if s == nil {
					outs[form] = "unbuildable"
					continue
				}
				log.add("render-begin", "")
				outs[form] = rawOf(s)
				if form == "func" {
					rec["gostring"], rec["render"], rec["withfile"] = renderAll(s)
				}
				log.add("render-end", "")
			}
			logs = log.evs
			rec["iscallback"] = isCb
			// every variadic construct once more WITHOUT variadic operands (and with % verbs in its string parameters)
			if ft.IsVariadic() {
				nv := map[string]string{}
				for _, form := range []string{"func", "stmt", "group"} {
					form := form
					safely(func() ([]byte, error) {
						a, can := synth(ft, &evLog{}, name, noVariadic)
						if !can {
							return nil, nil
						}
						var res *jen.Statement
						switch form {
						case "func":
							res = pkg[name].Call(a)[0].Interface().(*jen.Statement)
						case "stmt":
							res = reflect.ValueOf(jen.Add()).MethodByName(name).Call(a)[0].Interface().(*jen.Statement)
						case "group":
							res = jen.CustomFunc(jen.Options{}, func(g *jen.Group) { reflect.ValueOf(g).MethodByName(name).Call(a) })
						}
						nv[form] = rawOf(res)
						return nil, nil
					})
				}
				rec["nv_func"], rec["nv_stmt"], rec["nv_group"] = nv["func"], nv["stmt"], nv["group"]
			}
			// variadic Code constructs called with exactly ONE statement: the Group form must append a NEW statement
			// (what is chained on the result must not be written into the caller's argument)
			if ft.IsVariadic() && ft.In(ft.NumIn()-1).Elem() == codeType && ft.NumIn() == 1 {
				safely(func() ([]byte, error) {
					x := jen.Id("arg")
					before := rawOf(x)
					var viaGroup *jen.Statement
					viaGroup = jen.CustomFunc(jen.Options{}, func(g *jen.Group) {
						r := reflect.ValueOf(g).MethodByName(name).Call([]reflect.Value{reflect.ValueOf(x)})[0].Interface().(*jen.Statement)
						r.Id("tail")
					})
					viaFunc := pkg[name].Call([]reflect.Value{reflect.ValueOf(jen.Id("arg"))})[0].Interface().(*jen.Statement)
					viaFunc.Id("tail")
					rec["one_group"], rec["one_func"] = rawOf(viaGroup), rawOf(viaFunc)
					rec["arg_before"], rec["arg_after"] = before, rawOf(x)
					return nil, nil
				})
			}
		}
		rec["outs"] = outs
		rec["log"] = logs
		if _, has := rec["gostring"]; !has {
			rec["gostring"], rec["render"], rec["withfile"] = "", "", ""
		}
		if _, has := rec["iscallback"]; !has {
			rec["iscallback"] = false
		}
		if _, has := rec["builderror"]; !has {
			rec["builderror"] = ""
		}
		for _, k := range []string{"one_group", "one_func", "arg_before", "arg_after", "nv_func", "nv_stmt", "nv_group"} {
			if _, has := rec[k]; !has {
				rec[k] = ""
			}
		}
		tw.Emit(rec)
		tw.Distinct("constructs", name)
		if id <= 2 {
			tw.Sample(Rec{"construct": name, "outs": outs})
		}
	}
	// Func variants against their plain form: XFunc(func(g){ g.Add(items...) }) == X(items...)
	for _, name := range names {
		if !strings.HasSuffix(name, "Func") || name == "Func" {
			continue
		}
		base := strings.TrimSuffix(name, "Func")
		bf, ok1 := pkg[base]
		ff, ok2 := pkg[name]
		if !ok1 || !ok2 || !bf.Type().IsVariadic() || bf.Type().In(bf.Type().NumIn()-1).Elem() != codeType {
			continue
		}
		id++
		tw.Traces++
		plainArgs := []reflect.Value{}
		funcArgs := []reflect.Value{}
		for i := 0; i < bf.Type().NumIn()-1; i++ {
			a := reflect.ValueOf(jen.Options{Open: "<", Close: ">", Separator: ","})
			plainArgs = append(plainArgs, a)
			funcArgs = append(funcArgs, a)
		}
		plainArgs = append(plainArgs, reflect.ValueOf(jen.Id("x")), reflect.ValueOf(jen.Lit(1)))
		funcArgs = append(funcArgs, reflect.ValueOf(func(g *jen.Group) { g.Id("x"); g.Lit(1) }))
		var a, b string
		r := safely(func() ([]byte, error) {
			a = rawOf(bf.Call(plainArgs)[0].Interface().(*jen.Statement))
			b = rawOf(ff.Call(funcArgs)[0].Interface().(*jen.Statement))
			return nil, nil
		})
		tw.Emit(Rec{"ev": "funcv", "id": id, "name": name, "plain": a, "funcv": b, "status": r.status})
		// the same with items of other kinds in the list - a comment (block and line) as the last item, a literal, a tag, a
		// null item, a Dict-free nested group, a Line(): whatever the items are, the two ways of filling the group agree
		mixes := [][]func() jen.Code{
			{func() jen.Code { return jen.Id("x") }, func() jen.Code { return jen.Id("y").Comment("two\nlines") }},
			{func() jen.Code { return jen.Id("x") }, func() jen.Code { return jen.Comment("last") }},
			{func() jen.Code { return jen.Comment("first") }, func() jen.Code { return jen.Lit("s") }, func() jen.Code { return jen.Null() }},
			{func() jen.Code { return jen.Line().Id("x") }, func() jen.Code { return jen.Id("T").Tag(map[string]string{"k": "v"}) }, func() jen.Code { return jen.Line() }},
			{func() jen.Code { return jen.Qual("x/d", "V") }, func() jen.Code { return jen.Index().Int().Values(jen.Lit(1)) }, func() jen.Code { return jen.Empty() }},
		}
		for mi, mix := range mixes {
			id++
			tw.Traces++
			pa, fa := append([]reflect.Value{}, plainArgs[:bf.Type().NumIn()-1]...), append([]reflect.Value{}, funcArgs[:bf.Type().NumIn()-1]...)
			for _, m := range mix {
				pa = append(pa, reflect.ValueOf(m()))
			}
			fa = append(fa, reflect.ValueOf(func(g *jen.Group) {
				for _, m := range mix {
					g.Add(m())
				}
			}))
			var a2, b2 string
			r2 := safely(func() ([]byte, error) {
				a2 = rawOf(bf.Call(pa)[0].Interface().(*jen.Statement))
				b2 = rawOf(ff.Call(fa)[0].Interface().(*jen.Statement))
				return nil, nil
			})
			tw.Emit(Rec{"ev": "funcv", "id": id, "name": fmt.Sprintf("%s (items of mixed kinds %d)", name, mi+1), "plain": a2, "funcv": b2, "status": r2.status})
		}
	}
	// Custom against CustomFunc over the space of Options (delimiters present or not, separators with and without blanks,
	// one line or several): the two duplicated implementations agree everywhere
	for _, multi := range []bool{false, true} {
		for _, sep := range []string{",", ", ", ";", "", " | ", "\n"} {
			for _, oc := range [][2]string{{"<", ">"}, {"", ""}, {"(", ""}, {"", "}"}, {"[[", "]]"}} {
				for nitems := 0; nitems <= 2; nitems++ {
					id++
					tw.Traces++
					o := jen.Options{Open: oc[0], Close: oc[1], Separator: sep, Multi: multi}
					mk := func(k int) jen.Code { return jen.Id("i" + strconv.Itoa(k)) }
					var a, b, c, d string
					r := safely(func() ([]byte, error) {
						items := []jen.Code{}
						for k := 0; k < nitems; k++ {
							items = append(items, mk(k))
						}
						a = rawOf(jen.Custom(o, items...))
						b = rawOf(jen.CustomFunc(o, func(g *jen.Group) {
							for k := 0; k < nitems; k++ {
								g.Add(mk(k))
							}
						}))
						c = rawOf(jen.Id("p").Custom(o, items...))
						d = rawOf(jen.Id("p").CustomFunc(o, func(g *jen.Group) {
							for k := 0; k < nitems; k++ {
								g.Add(mk(k))
							}
						}))
						return nil, nil
					})
					name := fmt.Sprintf("CustomFunc (options %q %q %q multi=%v, %d items)", oc[0], oc[1], sep, multi, nitems)
					tw.Emit(Rec{"ev": "funcv", "id": id, "name": name, "plain": a, "funcv": b, "status": r.status})
					id++
					tw.Traces++
					tw.Emit(Rec{"ev": "funcv", "id": id, "name": name + " as Statement methods", "plain": c, "funcv": d, "status": r.status})
				}
			}
		}
	}
	// GoString, Render and RenderWithFile(fresh File) agree - also for the n-th statement printed in this process,
	// with qualified identifiers whose paths compete for one package name
	for i, path := range []string{"a/pkg", "b/pkg", "c/pkg", "fmt", "x/fmt", "b/pkg"} {
		id++
		tw.Traces++
		s := jen.Qual(path, "F").Call(jen.Qual("a/pkg", "V"))
		g, r, w := renderAll(s)
		tw.Emit(Rec{"ev": "entry", "id": id, "name": fmt.Sprintf("statement %d (%s)", i+1, path), "gostring": g, "render": r, "withfile": w})
	}
	// ... and for LARGE values: a block of several thousand statements (more than 64 KiB of output), a statement of
	// several hundred items, a call nested a hundred levels deep - each in a child process (crash containment, common.go)
	runContained(tw, "forms-large", []json.RawMessage{json.RawMessage("0"), json.RawMessage("1"), json.RawMessage("2")}, id+1, 1)
	id += 3
	// the callback of a Group-method ...Func form runs INSIDE the constructing call, i.e. before the new statement is
	// appended to the group: a callback that also appends to the enclosing group ("hoists" a declaration) gives the same
	// order as building the two statements one after the other
	for _, name := range names {
		fn, ok := pkg[name+"Func"]
		if !ok || fn.Type().NumIn() != 1 || fn.Type().In(0) != reflect.TypeOf(func(*jen.Group) {}) {
			continue
		}
		gm := groupType.Method(0)
		found := false
		for i := 0; i < groupType.NumMethod(); i++ {
			if groupType.Method(i).Name == name+"Func" {
				gm, found = groupType.Method(i), true
			}
		}
		if !found {
			continue
		}
		id++
		tw.Traces++
		var a, b string
		r := safely(func() ([]byte, error) {
			hoisting := jen.BlockFunc(func(g *jen.Group) {
				gm.Func.Call([]reflect.Value{reflect.ValueOf(g), reflect.ValueOf(func(in *jen.Group) {
					g.Id("hoisted")
					in.Id("a")
				})})
			})
			inner := fn.Call([]reflect.Value{reflect.ValueOf(func(in *jen.Group) { in.Id("a") })})[0].Interface().(*jen.Statement)
			plain := jen.Block(jen.Id("hoisted"), inner)
			a, b = rawOf(plain), rawOf(hoisting)
			return nil, nil
		})
		tw.Emit(Rec{"ev": "funcv", "id": id, "name": name + " (Group method, callback appends to the enclosing group)", "plain": a, "funcv": b, "status": r.status})
	}
	// the same for the Group methods whose callback has another shape: CustomFunc (options first), Do (the callback gets
	// the new statement), LitFunc / LitRuneFunc / LitByteFunc (the callback returns the value)
	{
		opts := jen.Options{Open: "<", Close: ">", Separator: ";"}
		type hoistCase struct {
			name        string
			plain, with func() *jen.Statement
		}
		hc := []hoistCase{
			{"Custom", func() *jen.Statement {
				return jen.Block(jen.Id("hoisted"), jen.CustomFunc(opts, func(in *jen.Group) { in.Id("a") }))
			}, func() *jen.Statement {
				return jen.BlockFunc(func(g *jen.Group) {
					g.CustomFunc(opts, func(in *jen.Group) { g.Id("hoisted"); in.Id("a") })
				})
			}},
			{"Do", func() *jen.Statement {
				return jen.Block(jen.Id("hoisted"), jen.Do(func(s *jen.Statement) { s.Id("a") }).Id("b"))
			}, func() *jen.Statement {
				return jen.BlockFunc(func(g *jen.Group) {
					g.Do(func(s *jen.Statement) { g.Id("hoisted"); s.Id("a") }).Id("b")
				})
			}},
			{"Lit", func() *jen.Statement {
				return jen.Block(jen.Id("hoisted"), jen.LitFunc(func() interface{} { return 1 }))
			}, func() *jen.Statement {
				return jen.BlockFunc(func(g *jen.Group) {
					g.LitFunc(func() interface{} { g.Id("hoisted"); return 1 })
				})
			}},
			{"LitRune", func() *jen.Statement {
				return jen.Block(jen.Id("hoisted"), jen.LitRuneFunc(func() rune { return 'x' }))
			}, func() *jen.Statement {
				return jen.BlockFunc(func(g *jen.Group) {
					g.LitRuneFunc(func() rune { g.Id("hoisted"); return 'x' })
				})
			}},
			{"LitByte", func() *jen.Statement {
				return jen.Block(jen.Id("hoisted"), jen.LitByteFunc(func() byte { return 7 }))
			}, func() *jen.Statement {
				return jen.BlockFunc(func(g *jen.Group) {
					g.LitByteFunc(func() byte { g.Id("hoisted"); return 7 })
				})
			}},
		}
		for _, c := range hc {
			id++
			tw.Traces++
			var a, b string
			r := safely(func() ([]byte, error) {
				a, b = rawOf(c.plain()), rawOf(c.with())
				return nil, nil
			})
			tw.Emit(Rec{"ev": "funcv", "id": id, "name": c.name + " (Group method, callback appends to the enclosing group)", "plain": a, "funcv": b, "status": r.status})
		}
	}
	// DictFunc returns a Dict, not a statement: checked on its own
	{
		id++
		tw.Traces++
		log := &evLog{}
		var a, b string
		r := safely(func() ([]byte, error) {
			log.add("begin", "DictFunc")
			d := jen.DictFunc(func(d jen.Dict) { log.add("cb", "DictFunc"); d[jen.Id("k")] = jen.Lit(1); d[jen.Id("j")] = jen.Lit(2) })
			log.add("end", "DictFunc")
			log.add("render-begin", "")
			b = rawOf(jen.Id("T").Values(d))
			log.add("render-end", "")
			a = rawOf(jen.Id("T").Values(jen.Dict{jen.Id("k"): jen.Lit(1), jen.Id("j"): jen.Lit(2)}))
			return nil, nil
		})
		tw.Emit(Rec{"ev": "dictfunc", "id": id, "name": "DictFunc", "plain": a, "funcv": b, "status": r.status, "log": log.evs})
	}
	// (b) TLC-generated trees: build with the chosen forms, log every callback
	seen := map[string]bool{}
	readLines(args[3], func(line []byte) {
		if seen[string(line)] {
			return
		}
		seen[string(line)] = true
		var t FormTree
		decodeTLCLine(line, &t)
		id++
		tw.Traces++
		log := &evLog{}
		var build func(t *FormTree) jen.Code
		build = func(t *FormTree) jen.Code {
			if t.K == "leaf" {
				return jen.Id("v" + strings.ReplaceAll(t.ID, ".", "_"))
			}
			name := strings.ToUpper(t.Name[:1]) + t.Name[1:]
			if t.Name == "do" {
				log.add("begin", t.ID)
				s := jen.Do(func(s *jen.Statement) {
					log.add("cb", t.ID)
					for i := range t.Kids {
						s.Add(build(&t.Kids[i]))
					}
				})
				log.add("end", t.ID)
				return s
			}
			if t.Fv {
				log.add("begin", t.ID)
				s := reflect.ValueOf(pkgFuncs[name+"Func"]).Call([]reflect.Value{reflect.ValueOf(func(g *jen.Group) {
					log.add("cb", t.ID)
					for i := range t.Kids {
						g.Add(build(&t.Kids[i]))
					}
				})})[0].Interface().(*jen.Statement)
				log.add("end", t.ID)
				return s
			}
			kids := []reflect.Value{}
			for i := range t.Kids {
				kids = append(kids, reflect.ValueOf(build(&t.Kids[i])))
			}
			log.add("begin", t.ID)
			s := reflect.ValueOf(pkgFuncs[name]).Call(kids)[0].Interface().(*jen.Statement)
			log.add("end", t.ID)
			return s
		}
		var plain func(t *FormTree) jen.Code
		plain = func(t *FormTree) jen.Code {
			if t.K == "leaf" {
				return jen.Id("v" + strings.ReplaceAll(t.ID, ".", "_"))
			}
			name := strings.ToUpper(t.Name[:1]) + t.Name[1:]
			if t.Name == "do" {
				name = "Add" // what Do(f) builds when f adds the children: a statement of them
			}
			kids := []reflect.Value{}
			for i := range t.Kids {
				kids = append(kids, reflect.ValueOf(plain(&t.Kids[i])))
			}
			return reflect.ValueOf(pkgFuncs[name]).Call(kids)[0].Interface().(*jen.Statement)
		}
		var out, ref string
		r := safely(func() ([]byte, error) {
			c := build(&t)
			log.add("render-begin", "")
			out = rawOf(jen.Add(c))
			log.add("render-end", "")
			ref = rawOf(jen.Add(plain(&t)))
			return nil, nil
		})
		tw.Emit(Rec{"ev": "tree", "id": id, "tree": &t, "log": log.evs, "out": out, "ref": ref, "status": r.status})
		tw.Distinct("trees", string(line))
	})
	_ = sort.Strings
	tw.Close(args[1])
}

type FormTree struct {
	K    string     `json:"k"`
	ID   string     `json:"id"`
	Name string     `json:"name,omitempty"`
	Fv   bool       `json:"fv"`
	Kids []FormTree `json:"kids"`
}

func (t *FormTree) MarshalJSON() ([]byte, error) {
	if t.K == "leaf" {
		return []byte(fmt.Sprintf(`{"k":"leaf","id":%q}`, t.ID)), nil
	}
	var b bytes.Buffer
	fmt.Fprintf(&b, `{"k":"node","id":%q,"name":%q,"fv":%v,"kids":[`, t.ID, t.Name, t.Fv)
	for i := range t.Kids {
		if i > 0 {
			b.WriteString(",")
		}
		kb, _ := t.Kids[i].MarshalJSON()
		b.Write(kb)
	}
	b.WriteString("]}")
	return b.Bytes(), nil
}

// largeValue: the i-th of the large values whose entry points must agree
func largeValue(i int) *jen.Statement {
	switch i {
	case 0:
		blk := []jen.Code{}
		for i := 0; i < 4000; i++ {
			blk = append(blk, jen.If(jen.Id("x").Op(">").Lit(i)).Block(jen.Return(jen.Lit(i))))
		}
		return jen.Func().Id("big").Params(jen.Id("x").Int()).Int().Block(blk...)
	case 1:
		sum := jen.Id("a0")
		for i := 1; i < 400; i++ {
			sum.Op("+").Id("a" + strconv.Itoa(i))
		}
		return jen.Id("total").Op(":=").Add(sum)
	}
	deep := jen.Id("leaf")
	for i := 0; i < 100; i++ {
		deep = jen.Id("f" + strconv.Itoa(i)).Call(deep)
	}
	return deep
}

func cmdFormsLarge(args []string) {
	// usage: forms-large <trace part> <stats part> <first id>   (the indices of the values as a JSON array on stdin)
	tw := NewTraceWriter(args[0])
	id, _ := strconv.Atoi(args[2])
	var idx []int
	in, _ := io.ReadAll(os.Stdin)
	if err := json.Unmarshal(in, &idx); err != nil {
		fatal(err)
	}
	for _, i := range idx {
		tw.Traces++
		var s *jen.Statement
		built := safely(func() ([]byte, error) { s = largeValue(i); return nil, nil })
		g, r, w := "error:build", "error:build", "error:build"
		if built.status == "nil" {
			g, r, w = renderAll(s)
		}
		tw.Emit(Rec{"ev": "entry", "id": id, "name": fmt.Sprintf("large value %d", i+1), "gostring": Hash([]byte(g)), "render": Hash([]byte(r)), "withfile": Hash([]byte(w))})
		id++
	}
	tw.CloseChild(args[1])
}
