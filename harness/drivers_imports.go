package main

// Seeded Go-side drivers for the import family: spaces TLC cannot enumerate (all reserved
// words, all standard-library packages, arbitrary path strings, large hint tables).
// Every driver respects the stated domain: hint names are identifiers (or "." for aliases),
// no false ImportName claim about a std package, one claim per path, no Anon of the local path
// or of an already referenced path.

import (
	"fmt"
	"go/token"
	"go/types"
	"math/rand"
	"sort"
	"strconv"
	"strings"
)

// varQ: a declaration that references path.sym.  The reference sits in one of several positions - an operand, a map key
// type, a type argument, an asserted type, a union term, an element type, a parameter, an embedded field, a call argument,
// one of a list - chosen by symbol and path, so that the references of one file are spread over the constructs.
func varQ(path, sym string) *Node {
	q := &Node{K: "grp", Name: "qual", Items: []*Node{{K: "tok", T: "pkg", V: path}, {K: "tok", T: "id", V: sym}}}
	pre := []*Node{kwn("var"), idn("_"), opn("=")}
	h := 0
	for _, c := range []byte(sym + "\x00" + path) {
		h = (h*31 + int(c)) % 1000003
	}
	switch h % 12 {
	case 1:
		return stm(kwn("var"), idn("_"), grp("map", stm(q)), idn("int"))
	case 2:
		return stm(append(pre, idn("f"), grp("types", stm(q)))...)
	case 3:
		return stm(append(pre, idn("x"), grp("assert", stm(q)))...)
	case 4:
		return stm(kwn("type"), idn("_"), grp("interface", stm(grp("union", stm(q), stm(idn("int"))))))
	case 5:
		return stm(append(pre, grp("index"), q, grp("values"))...)
	case 6:
		return stm(kwn("func"), idn("_"), grp("params", stm(q)), grp("block"))
	case 7:
		return stm(append(pre, grp("struct", stm(q)), grp("values"))...)
	case 8:
		return stm(append(pre, idn("g"), grp("call", stm(q)))...)
	case 10:
		return stm(kwn("func"), idn("_"), grp("types", stm(idn("P"), opn("*"), q)), grp("params"), grp("block"))
	case 11:
		return stm(kwn("func"), idn("_"), grp("types", stm(idn("P"), grp("parens", stm(q)))), grp("params"), grp("block"))
	case 9:
		return stm(kwn("var"), grp("list", stm(idn("_")), stm(idn("_"))), opn("="), grp("list", stm(q), stm(lit("1"))))
	}
	return stm(append(pre, q)...)
}

func qualStmt(path, sym string) *Node {
	return &Node{K: "stmt", Items: []*Node{{K: "grp", Name: "qual", Items: []*Node{{K: "tok", T: "pkg", V: path}, {K: "tok", T: "id", V: sym}}}}}
}

func fragQ(path, sym string) *Node {
	return &Node{K: "stmt", Items: []*Node{
		{K: "tok", T: "id", V: "x"}, {K: "tok", T: "op", V: "="},
		{K: "grp", Name: "qual", Items: []*Node{{K: "tok", T: "pkg", V: path}, {K: "tok", T: "id", V: sym}}},
	}}
}

func nullStmt() *Node { return &Node{K: "stmt", Items: []*Node{{K: "tok", T: "null"}}} }

// var _ = T{<key>: <value>}
func dictDecl(pairs ...[2]*Node) *Node {
	d := &Node{K: "dict"}
	for i, p := range pairs {
		d.Items = append(d.Items, &Node{K: "pair", Items: []*Node{p[0], p[1]}})
		d.Order = append(d.Order, i+1)
	}
	return &Node{K: "stmt", Items: []*Node{
		{K: "tok", T: "kw", V: "var"}, {K: "tok", T: "id", V: "_"}, {K: "tok", T: "op", V: "="}, {K: "tok", T: "id", V: "T"},
		{K: "grp", Name: "values", Items: []*Node{d}},
	}}
}

type symtab struct {
	m map[string]string
}

func (s *symtab) sym(path string) string {
	if s.m == nil {
		s.m = map[string]string{}
	}
	if v, ok := s.m[path]; ok {
		return v
	}
	v := "S" + strconv.Itoa(len(s.m)+1)
	s.m[path] = v
	return v
}

func reservedWords() []string {
	out := []string{}
	for t := token.BREAK; t <= token.VAR; t++ {
		if t.IsKeyword() {
			out = append(out, t.String())
		}
	}
	out = append(out, types.Universe.Names()...)
	sort.Strings(out)
	return out
}

func newAct(local, prefix string, pre ...string) Action {
	return Action{A: "New", Local: local, Prefix: prefix, Preamble: pre}
}

func ImportDriver(spec string) [][]Action {
	name, count := spec, 0
	if i := strings.Index(spec, ":"); i >= 0 {
		name = spec[:i]
		count, _ = strconv.Atoi(spec[i+1:])
	}
	r := newRand(int64(len(name)) * 7919)
	switch name {
	case "reserved":
		return drvReserved()
	case "std":
		return drvStd(false)
	case "stdpairs":
		return drvStd(true)
	case "paths":
		return drvPaths(r, count)
	case "compete":
		return drvCompete(r, count)
	case "hints":
		return drvHints(r, count)
	case "nullrefs":
		return drvNullRefs(r, count)
	case "dotlocal":
		return drvDotLocal(r, count)
	case "history":
		return drvHistory(r, count, true)
	case "mix":
		return drvHistory(r, count, false)
	case "cgo":
		return drvCgo(r, count)
	case "filecomments":
		return drvFileComments(r, count)
	case "scale":
		return drvScale(r, count)
	case "lateanon":
		return drvLateAnon(r, count)
	}
	fatal("unknown import driver " + name)
	return nil
}

// every keyword and universe identifier as last path element, as ImportName and as ImportAlias, prefix on/off
func drvReserved() [][]Action {
	out := [][]Action{}
	for _, w := range reservedWords() {
		for _, pfx := range []string{"", "pkg"} {
			st := &symtab{}
			out = append(out, []Action{newAct("", pfx), {A: "Add", Tree: varQ("x/"+w, st.sym("x/"+w))}, {A: "Render"}})
			out = append(out, []Action{newAct("", pfx), {A: "Add", Tree: varQ(w, st.sym(w))}, {A: "Add", Tree: varQ("y/"+w, st.sym("y/"+w))}, {A: "Render"}})
			if token.IsIdentifier(w) || token.IsKeyword(w) {
				if StdName("x/p") == "" {
					out = append(out, []Action{newAct("", pfx), {A: "ImportName", P: "x/p", N: w}, {A: "Add", Tree: varQ("x/p", st.sym("x/p"))}, {A: "Render"}})
				}
				out = append(out, []Action{newAct("", pfx), {A: "ImportAlias", P: "x/p", N: w}, {A: "Add", Tree: varQ("x/p", st.sym("x/p"))},
					{A: "Add", Tree: varQ("z/"+w, st.sym("z/"+w))}, {A: "Render"}})
			}
		}
	}
	return out
}

// sameNamed: another standard package with the same declared name ("" if there is none)
func sameNamed(std map[string]string, p string) string {
	best := ""
	for q, n := range std {
		if q != p && n == std[p] && (best == "" || q < best) {
			best = q
		}
	}
	return best
}

func drvStd(pairs bool) [][]Action {
	std := StdPackages()
	paths := []string{}
	for p := range std {
		paths = append(paths, p)
	}
	sort.Strings(paths)
	out := [][]Action{}
	if !pairs {
		for _, p := range paths {
			st := &symtab{}
			out = append(out, []Action{newAct("", ""), {A: "Add", Tree: varQ(p, st.sym(p))}, {A: "Render"}})
			// a File whose OWN path ends in the standard path (a fork, a vendored copy, github.com/pkg/errors): it is another package
			{
				st3 := &symtab{}
				own := newAct([]string{"github.com/pkg/", "example.com/vendor/", "internal/"}[len(p)%3]+p, "")
				if len(p)%2 == 0 {
					own.Ctor = "NewFilePath"
					own.Name = RefGuess(own.Local)
				}
				out = append(out, []Action{own, {A: "Add", Tree: varQ(p, st3.sym(p))}, {A: "Add", Tree: varQ(own.Local, st3.sym(own.Local))}, {A: "Render"}})
			}
			// a fragment that references the package is rendered with the File first (a preview), then the File - whose body
			// references another package of the same name, or the same one
			if other := sameNamed(std, p); other != "" {
				st4 := &symtab{}
				out = append(out, []Action{newAct("", ""), {A: "Frag", Tree: fragQ(p, st4.sym(p))}, {A: "Add", Tree: varQ(other, st4.sym(other))}, {A: "Render"},
					{A: "Add", Tree: varQ(p, st4.sym(p))}, {A: "Render"}})
			}
			// the same package under an explicit alias: its last path element, its real name, some other name - the
			// qualifier must then be that alias and the import must carry it (or provide it anyway)
			last := p
			if i := strings.LastIndex(p, "/"); i >= 0 {
				last = p[i+1:]
			}
			variants := []string{last, std[p], "aliased"}
			for k, al := range variants {
				if !LegalName(al) || al == "" || (k == 1 && al == last) {
					continue
				}
				st2 := &symtab{}
				pfx := []string{"", "", "pkg"}[(len(p)+k)%3]
				out = append(out, []Action{newAct("", pfx), {A: "ImportAlias", P: p, N: al}, {A: "Add", Tree: varQ(p, st2.sym(p))}, {A: "Render"}})
			}
		}
		return out
	}
	byName := map[string][]string{}
	for _, p := range paths {
		byName[std[p]] = append(byName[std[p]], p)
	}
	names := []string{}
	for n := range byName {
		names = append(names, n)
	}
	sort.Strings(names)
	for _, n := range names {
		ps := byName[n]
		for i := 0; i < len(ps); i++ {
			for j := 0; j < len(ps); j++ {
				if i == j {
					continue
				}
				st := &symtab{}
				out = append(out, []Action{newAct("", ""), {A: "Add", Tree: varQ(ps[i], st.sym(ps[i]))}, {A: "Add", Tree: varQ(ps[j], st.sym(ps[j]))}, {A: "Render"}})
			}
		}
		// two std packages of one name after a path that already holds the first numbered variant, prefix on/off
		if len(ps) >= 2 {
			for _, pfx := range []string{"", "pkg"} {
				st := &symtab{}
				holder := "example.com/x/" + n + "1"
				out = append(out, []Action{newAct("", pfx), {A: "Add", Tree: varQ(holder, st.sym(holder))}, {A: "Add", Tree: varQ(ps[0], st.sym(ps[0]))},
					{A: "Add", Tree: varQ(ps[1], st.sym(ps[1]))}, {A: "Render"}})
			}
		}
		// a names table (ImportNames) that lists the toolchain's names for all packages of this name and a few others,
		// then the packages are used in both orders
		if len(ps) >= 2 {
			table := map[string]string{"fmt": "fmt", "os": "os", "example.com/x/other": "other"}
			for _, p := range ps {
				table[p] = n
			}
			for k := 0; k < 2; k++ {
				st := &symtab{}
				a, b := ps[k%len(ps)], ps[(k+1)%len(ps)]
				out = append(out, []Action{newAct("", ""), {A: "ImportNames", M: table}, {A: "Add", Tree: varQ(a, st.sym(a))}, {A: "Add", Tree: varQ(b, st.sym(b))},
					{A: "Add", Tree: varQ("fmt", st.sym("fmt"))}, {A: "Render"}})
			}
		}
		// each with a same-named third-party path, both orders, prefix on/off
		third := "example.com/x/" + n
		for _, pfx := range []string{"", "pkg"} {
			st := &symtab{}
			out = append(out, []Action{newAct("", pfx), {A: "Add", Tree: varQ(ps[0], st.sym(ps[0]))}, {A: "Add", Tree: varQ(third, st.sym(third))}, {A: "Render"}})
			out = append(out, []Action{newAct("", pfx), {A: "Add", Tree: varQ(third, st.sym(third))}, {A: "Add", Tree: varQ(ps[0], st.sym(ps[0]))}, {A: "Render"}})
		}
	}
	return out
}

var pathAlphabet = []string{"a", "b", "d", "D", "x", "go", "int", "v2", "1", "9", "-", ".", "_", "~", "é", "ß", "д", "日本", "٣", "/", "/", "+", "@", "\u212a", "\u0130", "Ⅷ"}

func randElem(r *rand.Rand) string {
	n := 1 + r.Intn(4)
	s := ""
	for i := 0; i < n; i++ {
		s += pathAlphabet[r.Intn(len(pathAlphabet))]
	}
	return s
}

func randPath(r *rand.Rand) string {
	p := randElem(r)
	for r.Intn(2) == 0 {
		p += "/" + randElem(r)
	}
	switch r.Intn(10) {
	case 0:
		p += "/"
	case 1:
		p += "/" + reservedWords()[r.Intn(len(reservedWords()))]
	case 2:
		p += "/" + strconv.Itoa(r.Intn(1000))
	case 3:
		p += "/" + string(rune(0x4e00+r.Intn(500)))
	case 4:
		p = strings.ToUpper(p)
	}
	if p == "C" {
		p = "c/C"
	}
	return p
}

func hintName(r *rand.Rand) string {
	names := []string{"d", "d1", "d2", "q", "pkg", "pkg_d", "x", "fmt", "go", "int", "any", "err", "len", "T", "É", "_x", "a1", "C"}
	return names[r.Intn(len(names))]
}

func drvPaths(r *rand.Rand, n int) [][]Action {
	out := [][]Action{}
	for i := 0; i < n; i++ {
		st := &symtab{}
		h := []Action{newAct("", []string{"", "pkg", "p2"}[r.Intn(3)])}
		k := 1 + r.Intn(4)
		claimed := map[string]bool{}
		for j := 0; j < k; j++ {
			p := randPath(r)
			switch r.Intn(6) {
			case 0:
				if StdName(p) == "" && !claimed[p] {
					h = append(h, Action{A: "ImportName", P: p, N: hintName(r)})
					claimed[p] = true
				} else if r.Intn(2) == 0 {
					// an empty name claims nothing: it withdraws an earlier hint (an entry of a table, say), and the
					// path is named by the standard table or by guessing again
					h = append(h, Action{A: "ImportName", P: p, N: ""})
					claimed[p] = false
				}
			case 1:
				h = append(h, Action{A: "ImportAlias", P: p, N: hintName(r)})
			}
			h = append(h, Action{A: "Add", Tree: varQ(p, st.sym(p))})
		}
		h = append(h, Action{A: "Render"})
		out = append(out, h)
	}
	return out
}

// 2-6 paths competing for one base name, plus hints that occupy the numbered variants
func drvCompete(r *rand.Rand, n int) [][]Action {
	out := [][]Action{}
	bases := []string{"d", "fmt", "rand", "go", "x1", "pkg", "int", "uint", "float", "complex"} // numbered variants of the last four are predeclared (int8, float32, ...)
	for i := 0; i < n; i++ {
		st := &symtab{}
		b := bases[r.Intn(len(bases))]
		variants := []string{"a/" + b, "b/" + b, "c/" + strings.ToUpper(b), "e/" + b + "-", "f/" + b + ".", "g/9" + b, "h/" + b + "/", b, "i/" + b + "1", "j/" + b + "2", "k/pkg_" + b}
		r.Shuffle(len(variants), func(x, y int) { variants[x], variants[y] = variants[y], variants[x] })
		k := 2 + r.Intn(5)
		if i%10 == 0 {
			// many competitors: the numeric suffix goes beyond one digit
			for j := 0; j < 8+r.Intn(62); j++ {
				variants = append(variants, fmt.Sprintf("many%d/%s", j, b))
			}
			k = len(variants)
		}
		h := []Action{newAct("", []string{"", "", "pkg"}[r.Intn(3)])}
		for j := 0; j < k; j++ {
			p := variants[j]
			switch r.Intn(5) {
			case 0:
				if StdName(p) == "" {
					h = append(h, Action{A: "ImportName", P: p, N: []string{b, b + "1", b + "2"}[r.Intn(3)]})
				}
			case 1:
				h = append(h, Action{A: "ImportAlias", P: p, N: []string{b, b + "1", "pkg_" + b, "pkg_" + b + "1"}[r.Intn(4)]})
			}
			h = append(h, Action{A: "Add", Tree: varQ(p, st.sym(p))})
		}
		h = append(h, Action{A: "Render"})
		out = append(out, h)
	}
	return out
}

// large hint tables of which at most 3 entries are used
func drvHints(r *rand.Rand, n int) [][]Action {
	out := [][]Action{}
	for i := 0; i < n/10+1; i++ {
		st := &symtab{}
		h := []Action{newAct("", []string{"", "pkg"}[r.Intn(2)])}
		m := 50 + r.Intn(150)
		paths := []string{}
		for j := 0; j < m; j++ {
			p := fmt.Sprintf("h%d/%s", j, []string{"d", "e", "fmt", "q"}[r.Intn(4)])
			paths = append(paths, p)
			if r.Intn(12) == 0 {
				// an underscore alias for a path that is never referenced is just another unused hint
				h = append(h, Action{A: "ImportAlias", P: fmt.Sprintf("unused%d/u", j), N: "_"})
			}
			if r.Intn(2) == 0 {
				h = append(h, Action{A: "ImportName", P: p, N: []string{"d", "e", "nm" + strconv.Itoa(j)}[r.Intn(3)]})
			} else {
				h = append(h, Action{A: "ImportAlias", P: p, N: []string{"d", "e", "al" + strconv.Itoa(j), "."}[r.Intn(4)]})
			}
		}
		for j := 0; j < r.Intn(4); j++ {
			p := paths[r.Intn(len(paths))]
			h = append(h, Action{A: "Add", Tree: varQ(p, st.sym(p))})
		}
		if r.Intn(3) == 0 {
			h = append(h, Action{A: "Anon", P: "anon/pkg"})
		}
		h = append(h, Action{A: "Render"})
		out = append(out, h)
	}
	return out
}

// references inside elements that render nothing
func drvNullRefs(r *rand.Rand, n int) [][]Action {
	out := [][]Action{}
	paths := []string{"x/d", "y/d", "fmt", "z/e", "loc/al"}
	for i := 0; i < n; i++ {
		st := &symtab{}
		local := []string{"", "loc/al"}[r.Intn(2)]
		h := []Action{newAct(local, "")}
		k := 1 + r.Intn(3)
		for j := 0; j < k; j++ {
			p, q := paths[r.Intn(len(paths))], paths[r.Intn(len(paths))]
			switch r.Intn(5) {
			case 0: // pair omitted because its value is null
				h = append(h, Action{A: "Add", Tree: dictDecl([2]*Node{qualStmt(p, st.sym(p)), nullStmt()})})
			case 1: // pair omitted because its key is null
				h = append(h, Action{A: "Add", Tree: dictDecl([2]*Node{nullStmt(), qualStmt(p, st.sym(p))})})
			case 2: // one live pair and one omitted pair (the omitted pair's key / value references a path of its own)
				one := &Node{K: "stmt", Items: []*Node{{K: "tok", T: "lit", V: "1"}}}
				switch r.Intn(4) {
				case 0:
					h = append(h, Action{A: "Add", Tree: dictDecl([2]*Node{qualStmt(p, st.sym(p)), qualStmt(q, st.sym(q))}, [2]*Node{one, nullStmt()})})
				case 1: // omitted: qualified key, null value
					h = append(h, Action{A: "Add", Tree: dictDecl([2]*Node{one, one}, [2]*Node{qualStmt(q, st.sym(q)), nullStmt()})})
				case 2: // omitted: null key, qualified value
					h = append(h, Action{A: "Add", Tree: dictDecl([2]*Node{nullStmt(), qualStmt(q, st.sym(q))}, [2]*Node{qualStmt(p, st.sym(p)), one})})
				default: // omitted: both sides qualified, one of them under a null wrapper
					h = append(h, Action{A: "Add", Tree: dictDecl([2]*Node{qualStmt(q, st.sym(q)), &Node{K: "stmt", Items: []*Node{nullStmt()}}}, [2]*Node{one, qualStmt(p, st.sym(p))})})
				}
			case 3:
				h = append(h, Action{A: "Add", Tree: varQ(p, st.sym(p))})
			case 4: // a hint for a path that is never referenced
				if StdName(q) == "" {
					h = append(h, Action{A: "ImportAlias", P: "unused/" + q, N: "u"})
				}
				if r.Intn(2) == 0 && q != local {
					// a dot-import hint for a path that only occurs in omitted pairs: no import may result
					h = append(h, Action{A: "ImportAlias", P: "onlydead/" + q, N: "."})
					dead := "onlydead/" + q
					h = append(h, Action{A: "Add", Tree: dictDecl([2]*Node{{K: "stmt", Items: []*Node{{K: "tok", T: "lit", V: "1"}}}, {K: "stmt", Items: []*Node{{K: "tok", T: "lit", V: "2"}}}},
						[2]*Node{qualStmt(dead, st.sym(dead)), nullStmt()})})
				}
			}
		}
		h = append(h, Action{A: "Render"})
		out = append(out, h)
	}
	return out
}

func drvDotLocal(r *rand.Rand, n int) [][]Action {
	out := [][]Action{}
	locals := []string{"loc/al", "a.b/c-d", "x", "github.com/u/Repo", "deep/er/path/pkg",
		// the File's own path as a program may have derived it (from a directory, a module path with a major version, a
		// dotted or dashed last element): it is a string, compared as a string
		"example.com/api/v2/", "go-sdk/", "a/b.d/", "x/2024", "a/b.", "a/b-", "UP/Case/", "gopkg.in/yaml.v3"}
	for i := 0; i < n; i++ {
		st := &symtab{}
		L := locals[r.Intn(len(locals))]
		near := []string{L, L + "/x", "x/" + L, strings.ToUpper(L), strings.ToLower(L), L + "x", L[1:], L + "/", "other/d", "fmt"}
		for k := 0; k < len(L); k++ {
			if L[k] == '/' && k+1 < len(L) {
				near = append(near, L[k+1:]) // what follows a slash of the own path (its last element, its last two ...): other packages
			}
		}
		if t := strings.TrimRight(L, "/.-"); t != L {
			near = append(near, t, t, strings.TrimSuffix(L, "/")+"."+"/") // the same path spelled without its last character(s): another package
		}
		if i%2 == 1 {
			// structural look-alikes: the local path below a vendor / internal directory, with a major-version or VCS suffix,
			// with dot segments or doubled slashes - all of them are other packages
			near = append(near, "x/vendor/"+L, "vendor/"+L, L+"/vendor/x", "x/internal/"+L, L+"/internal", L+"/v2", "v2/"+L, "./"+L, "../"+L,
				L+"/.", L+"//", "/"+L, L+".git", strings.Replace(L+"/y", "/", "//", 1), strings.Replace(L+"/y", "/", "/./", 1), "gopkg.in/"+L+".v1", "_/"+L, L+"_test", L+"/"+L, "x/vendor/"+L+"/y")
		}
		a := newAct(L, []string{"", "pkg"}[r.Intn(2)])
		if r.Intn(3) == 0 {
			a.Ctor = "NewFilePath"
			a.Name = RefGuess(L)
		} else if r.Intn(2) == 0 {
			// NewFilePathName with package names of several shapes (an external test package, a name unrelated to the path)
			a.Name = []string{RefGuess(L) + "_test", "main", "other", RefGuess(L)}[r.Intn(4)]
		}
		h := []Action{a}
		if r.Intn(6) == 0 {
			// the File's own path as an anonymous import (an external test package that blank-imports the package under
			// test): it is an anonymous import the user added
			h = append(h, Action{A: "Anon", P: L})
		}
		dots := map[string]bool{}
		k := 1 + r.Intn(5)
		for j := 0; j < k; j++ {
			p := near[r.Intn(len(near))]
			if p != L && r.Intn(3) == 0 && !dots[p] {
				if r.Intn(3) == 0 && !bodyRefs(h, p) {
					h = append(h, Action{A: "Anon", P: p}) // anonymous first, then declared a dot-import, then referenced
				}
				h = append(h, Action{A: "ImportAlias", P: p, N: "."})
				dots[p] = true
			}
			h = append(h, Action{A: "Add", Tree: varQ(p, st.sym(p))})
		}
		h = append(h, Action{A: "Render"})
		out = append(out, h)
	}
	return out
}

// interleavings of renders, fragment renders, additions and late hints
func drvHistory(r *rand.Rand, n int, lateHints bool) [][]Action {
	out := [][]Action{}
	allPaths := []string{"x/d", "y/d", "z/d", "fmt", "x/fmt", "math/rand", "crypto/rand", "q/go", "C", "w/d/", "v/e/"} // (two end in a slash)
	for i := 0; i < n; i++ {
		paths := allPaths
		switch i % 4 {
		case 1: // few paths, one base name: the same path is hinted, made anonymous, referenced and rendered again and again
			paths = []string{"x/d", "y/d"}
		case 2:
			paths = []string{"x/d", "z/d1", "fmt"}
		}
		st := &symtab{}
		h := []Action{newAct("", []string{"", "pkg"}[r.Intn(2)])}
		referenced := map[string]bool{}
		claimed := map[string]string{}
		steps := 3 + r.Intn(8)
		renders := 0
		for j := 0; j < steps; j++ {
			p := paths[r.Intn(len(paths))]
			switch r.Intn(7) {
			case 0, 1:
				h = append(h, Action{A: "Add", Tree: varQ(p, st.sym(p))})
			case 2:
				if p != "C" {
					h = append(h, Action{A: "Frag", Tree: fragQ(p, st.sym(p))})
					referenced[p] = true
				}
			case 3:
				if StdName(p) == "" && p != "C" && (lateHints || !referenced[p]) {
					nm := []string{"d", "q", "d1"}[r.Intn(3)]
					if c, ok := claimed[p]; ok {
						nm = c
					}
					if r.Intn(6) == 0 {
						nm = "" // withdraws the hint; claims nothing
					} else {
						claimed[p] = nm
					}
					h = append(h, Action{A: "ImportName", P: p, N: nm})
				}
			case 4:
				if lateHints || !referenced[p] {
					h = append(h, Action{A: "ImportAlias", P: p, N: []string{"d", "q", ".", "fmt", "d1", "bar"}[r.Intn(6)]})
				}
			case 5:
				if !referenced[p] && !bodyRefs(h, p) {
					h = append(h, Action{A: "Anon", P: p})
				}
			case 6:
				h = append(h, Action{A: "Render"})
				renders++
				for _, a := range h {
					if a.A == "Add" {
						Walk(a.Tree, func(nd *Node) {
							if nd.K == "tok" && nd.T == "pkg" {
								referenced[nd.V] = true
							}
						})
					}
				}
				if r.Intn(3) == 0 {
					h = append(h, Action{A: "Render"})
				}
			}
		}
		h = append(h, Action{A: "Render"})
		out = append(out, h)
	}
	return out
}

func bodyRefs(h []Action, p string) bool {
	found := false
	for _, a := range h {
		if a.A == "Add" {
			Walk(a.Tree, func(nd *Node) {
				if nd.K == "tok" && nd.T == "pkg" && nd.V == p {
					found = true
				}
			})
		}
	}
	return found
}

func drvCgo(r *rand.Rand, n int) [][]Action {
	out := [][]Action{}
	pres := [][]string{{}, {"#include <stdio.h>"}, {"#include <a.h>", "int f();\nint g();"}, {"// #cgo LDFLAGS: -lm"}, {"/*\n#include <b.h>\n*/"},
		{"#include <a.h>", "#include <b.h>", "static int x = 1;"},
		// the same line more than once: every occurrence is part of the preamble
		{"#ifdef A", "#include <a.h>", "#endif", "#ifdef B", "#include <b.h>", "#endif"}, {"#include <a.h>", "#include <a.h>"}, {"int x;", "", "int x;"},
		// texts that end with a newline (read from a file, built line by line): one line, several lines
		{"#include <math.h>\n"}, {"#include <a.h>\n", "int f();\nint g();\n"}, {"#cgo LDFLAGS: -lm\n", "#include <b.h>"}}
	others := []string{"x/d", "fmt", "y/d", "x/c", "unsafe", "9fans.net/go/acme", "B/up", "A.b/c", "-dash/p", "4d63.com/x"} // (some sort before "C")
	for i := 0; i < n; i++ {
		st := &symtab{}
		pre := pres[r.Intn(len(pres))]
		late := []string{} // preamble blocks that are supplied only after the File has been rendered once
		if r.Intn(3) == 0 && len(pre) > 0 {
			k := r.Intn(len(pre))
			pre, late = pre[:k], pre[k:]
		}
		h := []Action{newAct("", []string{"", "pkg"}[r.Intn(2)], pre...)}
		if r.Intn(3) == 0 {
			h = append(h, Action{A: "ImportAlias", P: "C", N: []string{"c", "cgo", ".", "_c"}[r.Intn(4)]})
		}
		if r.Intn(4) == 0 {
			h = append(h, Action{A: "ImportName", P: "C", N: []string{"c", "cgo"}[r.Intn(2)]})
		}
		if r.Intn(4) == 0 {
			// another import claims / is aliased to the name C and is used first: "C" itself must stay C
			if r.Intn(2) == 0 {
				h = append(h, Action{A: "ImportName", P: "example.com/lib/c", N: "C"})
			} else {
				h = append(h, Action{A: "ImportAlias", P: "example.com/lib/c", N: "C"})
			}
			h = append(h, Action{A: "Add", Tree: varQ("example.com/lib/c", st.sym("example.com/lib/c"))})
		}
		anonC := r.Intn(3) == 0
		if anonC {
			h = append(h, Action{A: "Anon", P: "C"})
			if r.Intn(3) == 0 {
				// "C" is anonymous so far; a fragment that uses it is rendered with the File before the File itself
				h = append(h, Action{A: "Frag", Tree: fragQ("C", st.sym("C"))})
			}
		}
		k := r.Intn(4)
		for j := 0; j < k; j++ {
			p := others[r.Intn(len(others))]
			switch r.Intn(4) {
			case 0:
				h = append(h, Action{A: "ImportAlias", P: p, N: []string{"d", "q"}[r.Intn(2)]})
				h = append(h, Action{A: "Add", Tree: varQ(p, st.sym(p))})
			case 1:
				if !bodyRefs(h, p) {
					h = append(h, Action{A: "Anon", P: p})
				}
			default:
				h = append(h, Action{A: "Add", Tree: varQ(p, st.sym(p))})
			}
		}
		if r.Intn(3) != 0 {
			h = append(h, Action{A: "Add", Tree: varQ("C", st.sym("C"))})
		}
		h = append(h, Action{A: "Render"})
		if len(late) > 0 {
			for _, t := range late {
				h = append(h, Action{A: "Preamble", N: t})
			}
			if r.Intn(2) == 0 {
				// ... and one more path is referenced: the block loses "C" (it moves below the preamble) and gains the new
				// path - as many entries as before
				np := []string{"os", "late/one", "x/d"}[r.Intn(3)]
				h = append(h, Action{A: "Add", Tree: varQ(np, st.sym(np))})
				h = append(h, Action{A: "Render"})
			}
			h = append(h, Action{A: "Render"})
		}
		if r.Intn(4) == 0 {
			h = append(h, Action{A: "Render"})
		}
		out = append(out, h)
	}
	return out
}

// header / package comment lists of length 0-3 over text classes, canonical paths incl. quotes and backslashes
func drvFileComments(r *rand.Rand, n int) [][]Action {
	texts := []string{"Code generated by x. DO NOT EDIT.", "Package main does things.", "two\nlines", "Package main has paragraphs.\n\nThis is the second one.", "one\n\ntwo\n\nthree", "ends with newline\n", "has } braces {", "x := 1 // nested",
		"unicode é 日本", "  indented", "Copyright 2024", "a \"quoted\" word", "//raw line comment", "/* raw block */", "#hash",
		// texts that only LOOK like directives (a directive has no space after the slashes; these are comment texts)
		"go:generate stringer -type=T", "go:build ignore", "go:embed data.txt", "line main.go:10", "export Name", "nolint:all"}
	canons := []string{"", "", "example.com/canon", "a/b-c.d/e", "with \"quote\"", "back\\slash", "ünï/cødé"}
	out := [][]Action{}
	for i := 0; i < n/4+1; i++ {
		st := &symtab{}
		a := newAct("", []string{"", "pkg"}[r.Intn(2)])
		if r.Intn(4) == 0 {
			// a build constraint (which belongs above everything else) followed by ordinary headers
			a.Headers = append(a.Headers, []string{"//go:build linux", "//go:build linux && amd64", "// +build linux", "//go:generate stringer"}[r.Intn(4)])
		}
		for k := 0; k < r.Intn(4); k++ {
			a.Headers = append(a.Headers, texts[r.Intn(len(texts))])
		}
		if r.Intn(6) == 0 {
			a.Headers = append(a.Headers, a.Headers...) // repeated header texts
		}
		for k := 0; k < r.Intn(4); k++ {
			a.Comments = append(a.Comments, texts[r.Intn(len(texts))])
		}
		a.Canonical = canons[r.Intn(len(canons))]
		h := []Action{a}
		if r.Intn(2) == 0 {
			h = append(h, Action{A: "Add", Tree: varQ("fmt", st.sym("fmt"))})
		}
		if r.Intn(2) == 0 {
			h = append(h, Action{A: "Add", Tree: stm(CommentNode("a body comment"))})
		}
		h = append(h, Action{A: "Add", Tree: stm(kwn("var"), idn("v"), opn("="), lit("1"))}, Action{A: "Render"})
		out = append(out, h)
	}
	return out
}

// drvScale: Files that are LARGE in one dimension - competitors for one name (numeric suffixes of three and four digits),
// distinct imports, hints, renders of the same File, the length and depth of a path - as the generators of big projects
// produce them.  (No model comparison for these: the monitors read the observations.)
func drvScale(r *rand.Rand, n int) [][]Action {
	out := [][]Action{}
	// (every history ends with a second render: what the first one handed out must still be declared by the next)
	light := func(h []Action) []Action { h[0].Light = true; return append(h, Action{A: "Render"}) }
	competitors := []int{130}
	if n > 5000 {
		competitors = append(competitors, 1100)
	}
	for _, k := range competitors {
		for _, pfx := range []string{"", "pkg"} {
			st := &symtab{}
			h := []Action{newAct("", pfx)}
			for j := 0; j < k; j++ {
				p := fmt.Sprintf("m%d/d", j)
				if j%7 == 3 {
					h = append(h, Action{A: "ImportName", P: p, N: "d"})
				}
				h = append(h, Action{A: "Add", Tree: varQ(p, st.sym(p))})
				if j == k/2 {
					h = append(h, Action{A: "Render"}) // half way: the names handed out so far stay
				}
			}
			out = append(out, light(append(h, Action{A: "Render"})))
		}
	}
	{
		// several hundred distinct imports, a third of them hinted through one ImportNames table with many unused entries;
		// what small Files do at once happens here only after the File has grown: a path that was made anonymous is
		// referenced, and the next new path wants the same name; packages that share a base name arrive late; two
		// dot-imports are first referenced late, one of them for a path that the big table names
		st := &symtab{}
		h := []Action{newAct("", "")}
		table := map[string]string{}
		for j := 0; j < 900; j++ {
			table[fmt.Sprintf("big%d/p%d", j, j)] = fmt.Sprintf("n%d", j)
		}
		h = append(h, Action{A: "ImportNames", M: table})
		h = append(h, Action{A: "Anon", P: "late/d"})
		h = append(h, Action{A: "ImportAlias", P: "big7/p7", N: "."}, Action{A: "ImportAlias", P: "dot2/q", N: "."})
		for j := 0; j < 320; j++ {
			p := fmt.Sprintf("big%d/p%d", j*3, j*3)
			if j%3 == 1 {
				p = fmt.Sprintf("other%d/q%d", j, j)
			}
			h = append(h, Action{A: "Add", Tree: varQ(p, st.sym(p))})
			if j == 200 {
				h = append(h, Action{A: "Render"})
			}
		}
		// (rendered, then ONLY the anonymous path is referenced - no import is added, one changes its name -, rendered)
		h = append(h, Action{A: "Render"}, Action{A: "Add", Tree: varQ("late/d", st.sym("late/d"))}, Action{A: "Render"}, Action{A: "Render"})
		for _, p := range []string{"next/d", "t1/types", "t2/types", "t3/types", "t4/types", "big7/p7", "dot2/q", "third/d"} {
			h = append(h, Action{A: "Add", Tree: varQ(p, st.sym(p))})
		}
		out = append(out, light(append(h, Action{A: "Render"})))
	}
	{
		// a Dict of many pairs: some omitted (null value) with a qualified key that is referenced nowhere else, the values
		// of the others qualified with paths that compete for one name
		st := &symtab{}
		h := []Action{newAct("", "")}
		d := &Node{K: "dict"}
		for j := 0; j < 48; j++ {
			key := stm(lit(strconv.Quote(fmt.Sprintf("k%02d", j))))
			val := stm(lit(strconv.Itoa(j)))
			switch j % 8 {
			case 3:
				p := fmt.Sprintf("only/in/omitted%d", j)
				key = qualStmt(p, st.sym(p))
				val = nullStmt()
			case 5:
				p := fmt.Sprintf("gen/v%d/model", j)
				val = qualStmt(p, st.sym(p))
			}
			d.Items = append(d.Items, &Node{K: "pair", Items: []*Node{key, val}})
			d.Order = append(d.Order, j+1)
		}
		h = append(h, Action{A: "Add", Tree: stm(kwn("var"), idn("_"), opn("="), idn("T"), grp("values", d))})
		out = append(out, light(append(h, Action{A: "Render"})))
	}
	{
		// a value nested many levels deep is rendered with the File (it formats), then a small one, then the File
		st := &symtab{}
		h := []Action{newAct("", "")}
		deep := stm(qualStmt("deep/d", st.sym("deep/d")))
		for j := 0; j < 700; j++ {
			deep = stm(grp("parens", deep))
		}
		h = append(h, Action{A: "Frag", Tree: stm(idn("x"), opn("="), deep)})
		h = append(h, Action{A: "Frag", Tree: fragQ("small/d", st.sym("small/d"))})
		h = append(h, Action{A: "Frag", Tree: fragQ("small/d", st.sym("small/d"))})
		h = append(h, Action{A: "Add", Tree: varQ("small/d", st.sym("small/d"))})
		out = append(out, light(append(h, Action{A: "Render"})))
	}
	for _, pfx := range []string{"", "gen"} {
		// standard-library packages in a File that has grown: after a dozen packages of the same base name, and in an
		// import block of several dozen entries in which standard names collide
		st := &symtab{}
		h := []Action{newAct("", pfx)}
		for j := 0; j < 14; j++ {
			p := fmt.Sprintf("vendor%d/rand", j)
			h = append(h, Action{A: "Add", Tree: varQ(p, st.sym(p))})
		}
		for _, p := range []string{"math/rand", "crypto/rand", "text/template", "html/template", "errors", "x/errors", "go/scanner", "text/scanner",
			"runtime/pprof", "net/http/pprof", "fmt", "os", "io", "strings", "bytes", "sort", "time", "sync", "context", "net/http", "encoding/json", "path", "path/filepath", "math/rand/v2"} {
			h = append(h, Action{A: "Add", Tree: varQ(p, st.sym(p))})
		}
		out = append(out, light(append(h, Action{A: "Render"}, Action{A: "Render"})))
	}
	{
		// cgo in a large File: dozens of imports and a reference to "C", rendered, THEN the preamble arrives (one of its
		// lines is several thousand bytes long: a generated table), rendered again
		st := &symtab{}
		h := []Action{newAct("", "")}
		for j := 0; j < 90; j++ {
			p := fmt.Sprintf("cg%d/p%d", j, j)
			h = append(h, Action{A: "Add", Tree: varQ(p, st.sym(p))})
		}
		h = append(h, Action{A: "Add", Tree: varQ("C", st.sym("C"))}, Action{A: "Render"})
		h = append(h, Action{A: "Preamble", N: "#include <stdint.h>\nstatic const uint8_t table[] = {" + strings.Repeat("0x2a, ", 1300) + "0};\nint lookup(int i);"})
		h = append(h, Action{A: "Preamble", N: "#cgo LDFLAGS: -lm"})
		out = append(out, light(append(h, Action{A: "Render"})))
	}
	{
		// one File rendered many times, a reference added now and then
		st := &symtab{}
		h := []Action{newAct("", "pkg")}
		for j := 0; j < 70; j++ {
			if j%9 == 0 {
				p := fmt.Sprintf("rep%d/d", j)
				h = append(h, Action{A: "Add", Tree: varQ(p, st.sym(p))})
			}
			h = append(h, Action{A: "Render"})
		}
		out = append(out, light(h))
	}
	{
		// very long and very deep paths, long last elements
		st := &symtab{}
		h := []Action{newAct("", "")}
		long := strings.Repeat("segment/", 40) + "leaf"
		wide := "w/" + strings.Repeat("x", 90)
		for _, p := range []string{long, long + "2", wide, wide + "y", strings.Repeat("a/", 120) + "d", "z/" + strings.Repeat("é", 60)} {
			h = append(h, Action{A: "Add", Tree: varQ(p, st.sym(p))})
		}
		out = append(out, light(append(h, Action{A: "Render"})))
	}
	return out
}

// drvLateAnon: a path is referenced and rendered, THEN made an anonymous import as well, and the File is rendered again
// (the reference is still in the body: it must still resolve, the block must still be exact, names must stay legal and
// unique).  Not part of C08's histories: what name the path has afterwards is outside that property.
func drvLateAnon(r *rand.Rand, n int) [][]Action {
	out := [][]Action{}
	pool := []string{"x/d", "y/d", "z/d", "fmt", "embed", "math/rand", "crypto/rand", "q/go", "C", "image/png", "x/fmt"}
	for i := 0; i < n/4+8; i++ {
		st := &symtab{}
		h := []Action{newAct("", []string{"", "pkg"}[r.Intn(2)])}
		k := 1 + r.Intn(4)
		used := []string{}
		for j := 0; j < k; j++ {
			p := pool[r.Intn(len(pool))]
			used = append(used, p)
			h = append(h, Action{A: "Add", Tree: varQ(p, st.sym(p))})
		}
		h = append(h, Action{A: "Render"})
		// the path looked up last, or any other one
		p := used[len(used)-1]
		if r.Intn(3) == 0 {
			p = used[r.Intn(len(used))]
		}
		if p != "C" {
			h = append(h, Action{A: "Anon", P: p})
			if r.Intn(3) == 0 {
				h = append(h, Action{A: "ImportAlias", P: p, N: []string{"renamed", "mrand", "d"}[r.Intn(3)]}) // ... and gets another name
			}
		}
		h = append(h, Action{A: "Render"})
		if r.Intn(2) == 0 {
			q := pool[r.Intn(len(pool))]
			h = append(h, Action{A: "Add", Tree: varQ(q, st.sym(q))}, Action{A: "Render"})
		}
		out = append(out, h)
	}
	return out
}
