package main

// System tier: behaviours of spec/JenSystem.tla (a heap of Statements shared by reference, several
// Files, observations as ordinary steps) exported by TLC are executed on the real library.  Every
// observation is projected and written to the trace; in addition each observation is repeated on an
// isolated TWIN (a fresh universe in which only this File's own calls and the heap operations are
// replayed): "a File's output depends only on that File's own contents and settings" (C09).

import (
	"bytes"
	"encoding/json"
	"fmt"
	"go/token"
	"io"
	"math/rand"
	"os"
	"os/exec"
	"sort"
	"strconv"
	"strings"

	"github.com/dave/jennifer/jen"
)

type SysAct struct {
	A     string `json:"a"`
	F     int    `json:"f"`
	C     int    `json:"c"`
	D     int    `json:"d"`
	P     string `json:"p"`
	N     string `json:"n"`
	Refs  []int  `json:"refs"`
	Files []struct {
		Local    string `json:"local"`
		Prefix   string `json:"prefix"`
		NoFormat bool   `json:"noformat"`
	} `json:"files"`
}

var sysPaths = []string{"crypto/rand", "fmt", "loc/al", "math/rand", "x/d", "x/go", "y/d", "z/d1"}

func sysSym(p string) string {
	for i, q := range sysPaths {
		if q == p {
			return "S" + strconv.Itoa(i+1)
		}
	}
	fatal("system tier: unknown path " + p)
	return ""
}

type recWriter struct {
	buf   bytes.Buffer
	calls int
}

func (w *recWriter) Write(b []byte) (int, error) { w.calls++; return w.buf.Write(b) }

type sysUniverse struct {
	cells []*jen.Statement
	files []*jen.File
}

type sysObs struct {
	status string
	out    []byte
	calls  int
	f      *jen.File
}

// apply executes one action; for observations it returns the result.
func (u *sysUniverse) apply(a SysAct) *sysObs {
	cell := func(i int) *jen.Statement { return u.cells[i-1] }
	switch a.A {
	case "Files":
		for _, fs := range a.Files {
			var f *jen.File
			if fs.Local != "" {
				f = jen.NewFilePathName(fs.Local, "main")
			} else {
				f = jen.NewFile("main")
			}
			f.PackagePrefix = fs.Prefix
			f.NoFormat = fs.NoFormat
			u.files = append(u.files, f)
		}
	case "NewVar":
		u.cells = append(u.cells, jen.Var().Id("_").Op("=").Id(a.N))
	case "NewId":
		u.cells = append(u.cells, jen.Id(a.N))
	case "NewQual":
		u.cells = append(u.cells, jen.Qual(a.P, a.N))
	case "NewNull":
		u.cells = append(u.cells, jen.Null())
	case "AppId":
		cell(a.C).Id(a.N)
	case "AppDot":
		cell(a.C).Dot(a.N)
	case "AppQual":
		cell(a.C).Op("+").Qual(a.P, a.N)
	case "AppGroup":
		ops := []jen.Code{}
		for _, r := range a.Refs {
			ops = append(ops, cell(r))
		}
		fn := func(g *jen.Group) {
			for _, op := range ops {
				g.Add(op)
			}
		}
		switch {
		case a.N == "call" && a.D == 0:
			cell(a.C).Call(ops...)
		case a.N == "call":
			cell(a.C).CallFunc(fn)
		case a.N == "index" && a.D == 0:
			cell(a.C).Index(ops...)
		case a.N == "index":
			cell(a.C).IndexFunc(fn)
		case a.N == "list" && a.D == 0:
			cell(a.C).List(ops...)
		default:
			cell(a.C).ListFunc(fn)
		}
	case "AddRef":
		cell(a.C).Add(cell(a.D))
	case "Clone":
		u.cells = append(u.cells, cell(a.C).Clone())
	case "FileAdd":
		u.files[a.F-1].Add(cell(a.C))
	case "FileAddFile":
		u.files[a.F-1].Add(u.files[a.D-1])
	case "ImportName":
		u.files[a.F-1].ImportName(a.P, a.N)
	case "ImportAlias":
		u.files[a.F-1].ImportAlias(a.P, a.N)
	case "Anon":
		u.files[a.F-1].Anon(a.P)
	case "Header":
		u.files[a.F-1].HeaderComment(a.N)
	case "PkgComment":
		u.files[a.F-1].PackageComment(a.N)
	case "Preamble":
		u.files[a.F-1].CgoPreamble(a.N)
	case "Canonical":
		u.files[a.F-1].CanonicalPath = a.P
	case "Render":
		f := u.files[a.F-1]
		w := &recWriter{}
		r := safely(func() ([]byte, error) { err := f.Render(w); return nil, err })
		return &sysObs{status: r.status, out: w.buf.Bytes(), calls: w.calls, f: f}
	case "Frag":
		f := u.files[a.F-1]
		w := &recWriter{}
		s := cell(a.C)
		r := safely(func() ([]byte, error) { err := s.RenderWithFile(w, f); return nil, err })
		return &sysObs{status: r.status, out: w.buf.Bytes(), calls: w.calls, f: f}
	case "Plain":
		w := &recWriter{}
		s := cell(a.C)
		r := safely(func() ([]byte, error) { err := s.Render(w); return nil, err })
		return &sysObs{status: r.status, out: w.buf.Bytes(), calls: w.calls, f: nil}
	default:
		fatal("system tier: unknown action " + a.A)
	}
	return nil
}

// codeToks: the token texts of src (automatic semicolons and comments dropped).
func codeToks(src []byte) []string {
	out := []string{}
	for _, t := range scanTokens(src, false) {
		if t.tok == token.SEMICOLON && t.lit == "\n" {
			continue
		}
		out = append(out, t.lit)
	}
	return out
}

// freshTwins replays, in a NEW PROCESS, only the heap operations and File f's own calls of history h and returns the
// status + output hash of every observation made with f, keyed by the index of the action.  A process-wide cache or
// table that other Files (or earlier behaviours) have filled cannot have influenced these.
func freshTwins(h []SysAct, f int) map[int]string {
	b, _ := json.Marshal(h)
	cmd := exec.Command(os.Args[0], "system-twin", strconv.Itoa(f))
	cmd.Stdin = bytes.NewReader(b)
	cmd.Env = os.Environ()
	var errb bytes.Buffer
	cmd.Stderr = &errb
	out, err := cmd.Output()
	if err != nil {
		if m := errb.String(); strings.Contains(m, "fatal error:") || strings.Contains(m, "goroutine stack exceeds") {
			return map[int]string{-1: "died"} // the library killed the twin's process: no observation of the twin equals anything
		}
		fatal("system-twin failed: " + err.Error())
	}
	res := map[int]string{}
	if err := json.Unmarshal(out, &res); err != nil {
		fatal("system-twin output: " + err.Error())
	}
	return res
}

// sysReachable: the cells that are part of what is observed.  With k >= 0: the observation h[k] (a File render: the
// bodies of the File and of the Files added to it; a fragment or plain render: that cell), the graph as it is after
// h[:k+1].  With k < 0: everything that is ever observed with File f, the graph at the end of h.  Edges as in JenSystem:
// Add(s), group operands, clone -> original.
func sysReachable(h []SysAct, k int, f int) map[int]bool {
	edges, body, fedges := map[int][]int{}, map[int][]int{}, map[int][]int{}
	n := 0
	end := k
	if k < 0 {
		end = len(h) - 1
	}
	roots := []int{}
	for j := 0; j <= end; j++ {
		a := h[j]
		switch a.A {
		case "NewVar", "NewId", "NewQual", "NewNull":
			n++
		case "Clone":
			n++
			edges[n] = append(edges[n], a.C)
		case "AddRef":
			edges[a.C] = append(edges[a.C], a.D)
		case "AppGroup":
			edges[a.C] = append(edges[a.C], a.Refs...)
		case "FileAdd":
			body[a.F] = append(body[a.F], a.C)
		case "FileAddFile":
			fedges[a.F] = append(fedges[a.F], a.D)
		case "Frag":
			// a fragment rendered with a File registers its paths there: what was rendered with the File before is part
			// of the File's history
			if (k < 0 && a.F == f) || (k >= 0 && h[k].A != "Plain" && a.F == h[k].F) {
				roots = append(roots, a.C)
			}
		}
	}
	withBodies := func(f int) {
		seenF := map[int]bool{}
		var walk func(g int)
		walk = func(g int) {
			if seenF[g] {
				return
			}
			seenF[g] = true
			roots = append(roots, body[g]...)
			for _, x := range fedges[g] {
				walk(x)
			}
		}
		walk(f)
	}
	// (an earlier render of the File registered the paths of its body as it was then: the body belongs to the history of
	// every observation made with the File, a fragment render included)
	if k < 0 {
		withBodies(f)
	} else if h[k].A == "Render" {
		withBodies(h[k].F)
	} else if h[k].A == "Frag" {
		withBodies(h[k].F)
		roots = append(roots, h[k].C)
	} else {
		roots = append(roots, h[k].C)
	}
	out := map[int]bool{}
	var visit func(c int)
	visit = func(c int) {
		if out[c] {
			return
		}
		out[c] = true
		for _, d := range edges[c] {
			visit(d)
		}
	}
	for _, c := range roots {
		visit(c)
	}
	return out
}

func sysIsAppend(a string) bool {
	return a == "AppId" || a == "AppDot" || a == "AppQual" || a == "AppGroup" || a == "AddRef"
}

func cmdSystemTwin(args []string) {
	f, _ := strconv.Atoi(args[0])
	var h []SysAct
	in, _ := io.ReadAll(os.Stdin)
	if err := json.Unmarshal(in, &h); err != nil {
		fatal(err)
	}
	contains := sysContains(h)
	rel := sysReachable(h, -1, f)
	u := &sysUniverse{}
	res := map[int]string{}
	for k, a := range h {
		if a.A == "Plain" || (a.F != 0 && a.F != f && !(contains[f][a.F] && (a.A == "FileAdd" || a.A == "FileAddFile"))) {
			continue
		}
		if sysIsAppend(a.A) && !rel[a.C] {
			continue // an append to a statement that is never part of anything observed with this File
		}
		if o := u.apply(a); o != nil {
			res[k] = o.status + ":" + Hash(o.out)
		}
	}
	b, _ := json.Marshal(res)
	os.Stdout.Write(b)
}

// sysContains[f][g]: File g has been added (directly or not) to File f somewhere in this behaviour: g's contents then
// belong to f's contents (g's own hints and renders still do not)
func sysContains(h []SysAct) map[int]map[int]bool {
	contains := map[int]map[int]bool{}
	for f := 1; f <= len(h[0].Files); f++ {
		contains[f] = map[int]bool{}
	}
	for changed := true; changed; {
		changed = false
		for _, b := range h {
			if b.A == "FileAddFile" {
				if !contains[b.F][b.D] {
					contains[b.F][b.D], changed = true, true
				}
				for g := range contains[b.D] {
					if !contains[b.F][g] {
						contains[b.F][g], changed = true, true
					}
				}
			}
		}
	}
	return contains
}

func ReplaySystem(tw *TraceWriter, id int, h []SysAct) {
	if len(h) == 0 || h[0].A != "Files" {
		fatal("system history does not start with Files")
	}
	tw.Traces++
	u := &sysUniverse{}
	syms := map[string]string{}
	for _, p := range sysPaths {
		syms[sysSym(p)] = p
	}
	contains := sysContains(h)
	nobs := 0
	fm := map[int]*Action{} // the front matter every File has been given so far (from the recorded calls)
	for f := 1; f <= len(h[0].Files); f++ {
		fm[f] = &Action{}
	}
	fresh := map[int]map[int]string{} // file -> action index -> status:hash, from a fresh process (sampled behaviours)
	if id%5 == 0 {
		for f := 1; f <= len(h[0].Files); f++ {
			fresh[f] = freshTwins(h, f)
		}
		tw.Stats["behaviours_with_fresh_process_twins"]++
	}
	for k, a := range h {
		o := u.apply(a)
		refs := a.Refs
		if refs == nil {
			refs = []int{}
		}
		rec := Rec{"ev": a.A, "f": a.F, "c": a.C, "d": a.D, "p": a.P, "n": a.N, "refs": refs}
		switch a.A {
		case "Header":
			fm[a.F].Headers = append(fm[a.F].Headers, a.N)
			rec["p"] = CommentNode(a.N).St
		case "PkgComment":
			fm[a.F].Comments = append(fm[a.F].Comments, a.N)
			rec["p"] = CommentNode(a.N).St
		case "Preamble":
			fm[a.F].Preamble = append(fm[a.F].Preamble, a.N)
			rec["p"] = CommentNode(a.N).St
		case "Canonical":
			fm[a.F].Canonical = a.P
		}
		if a.A == "Files" {
			rec["trace"] = id
			fs := []Rec{}
			for _, x := range a.Files {
				fs = append(fs, Rec{"local": x.Local, "prefix": x.Prefix, "noformat": x.NoFormat})
			}
			rec["files"] = fs
		}
		if o != nil {
			nobs++
			// the isolated twin: only this File's own calls and the heap operations on statements that are part of what is
			// observed (statements are still all created, so that the numbering stays; appends to others are left out)
			tu := &sysUniverse{}
			var to *sysObs
			rel := sysReachable(h, k, 0)
			for j := 0; j <= k; j++ {
				b := h[j]
				if sysIsAppend(b.A) && !rel[b.C] {
					continue // an append to a statement that is not part of what is observed (a sibling clone, say)
				}
				if (b.F != 0 && b.F != a.F && !(contains[a.F][b.F] && (b.A == "FileAdd" || b.A == "FileAddFile"))) || (a.A == "Plain" && b.F != 0) || (b.A == "Plain" && j < k) {
					continue
				}
				if j == k && a.A == "Plain" {
					// the twin of Render(w) is RenderWithFile(w, a fresh File) - and GoString must agree as well
					w := &recWriter{}
					s := tu.cells[a.C-1]
					r := safely(func() ([]byte, error) { err := s.RenderWithFile(w, jen.NewFile("")); return nil, err })
					to = &sysObs{status: r.status, out: w.buf.Bytes()}
					gs := safely(func() ([]byte, error) { return []byte(s.GoString()), nil })
					rec["twin2"] = o.status != "nil" || (gs.status == "nil" && bytes.Equal(gs.out, o.out))
					break
				}
				if r := tu.apply(b); j == k {
					to = r
				}
			}
			specs, prefs, bare := []Spec{}, []Ref{}, []string{}
			if a.A == "Render" {
				specs, prefs, bare = ProjectImports(o.out, syms)
			} else {
				_, prefs, bare = ProjectImports(o.out, syms)
			}
			nf := false
			if a.A == "Render" {
				nf = h[0].Files[a.F-1].NoFormat
			}
			raw := ""
			if nf && o.status == "nil" {
				raw = string(o.out)
			}
			rec["status"], rec["raw"], rec["israw"] = o.status, raw, nf && o.status == "nil"
			rec["toks"] = codeToks(o.out)
			rec["specs"], rec["prefs"], rec["bare"] = specs, prefs, bare
			if o.f != nil {
				rec["table"] = tableOf(o.f)
			} else {
				rec["table"] = []Rec{}
			}
			rec["out"] = Hash(o.out)
			rec["nbytes"] = len(o.out)
			rec["twin"] = to != nil && to.status == o.status && bytes.Equal(to.out, o.out)
			if ft, ok := fresh[a.F]; ok && a.A != "Plain" {
				rec["twin"] = rec["twin"].(bool) && ft[k] == o.status+":"+Hash(o.out)
			}
			if a.A == "Render" {
				// C15 at file level and C19's placement of the preamble, measured on the output with go/parser (the same
				// projections as in the File histories of the imports family)
				rec["c15f"] = fileCommentFacts(renderResult{status: o.status, out: o.out}, *fm[a.F])
				predoc := ""
				for _, c := range fm[a.F].Preamble {
					predoc += StripSpace(CommentText(c))
				}
				rec["predoc"] = predoc
				rec["docsok"] = false
				if o.status == "nil" {
					if docs, ok := ImportDocs(o.out); ok {
						rec["docsok"] = true
						for i := range specs {
							if specs[i].Decl-1 < len(docs) {
								specs[i].Doc = docs[specs[i].Decl-1]
							}
						}
						rec["specs"] = specs
					}
				}
				rec["parses"] = o.status != "nil" || nf || ParsesAsFile(o.out)
			} else {
				rec["parses"] = o.status != "nil" || ParsesAsFragment(o.out)
			}
			if len(specs) >= 2 {
				tw.Distinct("file_renders_with_2plus_imports", string(o.out))
			}
			if o.status == "error" {
				tw.Stats["failed_renders"]++
			}
		}
		tw.Emit(rec)
	}
	tw.Stats["observations"] += nobs
	if id <= 2 {
		tw.Sample(Rec{"history": fmt.Sprint(h[1:])})
	}
}

// randomSystemHistory: a Go-side driver for longer behaviours than TLC exports (same action alphabet).
func randomSystemHistory(r *rand.Rand, nops int) []SysAct {
	first := SysAct{A: "Files"}
	nfiles := 2 + r.Intn(2)
	for i := 0; i < nfiles; i++ {
		first.Files = append(first.Files, struct {
			Local    string `json:"local"`
			Prefix   string `json:"prefix"`
			NoFormat bool   `json:"noformat"`
		}{[]string{"", "", "loc/al", "x/d"}[r.Intn(4)], []string{"", "", "pkg"}[r.Intn(3)], r.Intn(3) != 0})
	}
	h := []SysAct{first}
	type cellInfo struct{ reach map[int]bool }
	cells := []cellInfo{}
	claims := map[string]string{}
	registered := map[string]bool{}
	ntok := 0
	fresh := func() string { ntok++; return "t" + strconv.Itoa(ntok) }
	reaches := func(c, d int) bool { return cells[c-1].reach[d] } // d reachable from c
	addReach := func(c, d int) {
		// everything that reaches c now also reaches what d reaches
		for i := range cells {
			if cells[i].reach[c] {
				for x := range cells[d-1].reach {
					cells[i].reach[x] = true
				}
			}
		}
	}
	newCell := func() int { cells = append(cells, cellInfo{map[int]bool{len(cells) + 1: true}}); return len(cells) }
	hintNames := []string{"d", "d1", ".", "q", "rand", "go", "pkg_d", ""}
	if r.Intn(3) == 0 {
		// templates: chains of clones (a clone of a clone of ...) that are extended, passed as operands to groups of other
		// chains, and extended again behind the group:  tmpl.Clone().Clone().Call(arg.Clone().Clone()).Dot(x)
		mk := func(extra int) int {
			c := newCell()
			h = append(h, SysAct{A: "NewId", N: fresh()})
			for i := 0; i < extra; i++ {
				h = append(h, SysAct{A: "AppDot", C: c, N: fresh()})
			}
			for i := 0; i < 1+r.Intn(3); i++ {
				n := newCell()
				for x := range cells[c-1].reach {
					cells[n-1].reach[x] = true
				}
				h = append(h, SysAct{A: "Clone", C: c})
				c = n
				if r.Intn(2) == 0 {
					h = append(h, SysAct{A: "AppDot", C: c, N: fresh()})
				}
			}
			return c
		}
		outer := mk(r.Intn(3))
		for k := 0; k < 1+r.Intn(2); k++ {
			inner := mk(1 + r.Intn(5))
			addReach(outer, inner)
			h = append(h, SysAct{A: "AppGroup", C: outer, N: []string{"call", "index"}[r.Intn(2)], Refs: []int{inner}})
			for i := 0; i < 1+r.Intn(3); i++ {
				h = append(h, SysAct{A: "AppDot", C: outer, N: fresh()})
			}
		}
		h = append(h, SysAct{A: "Plain", C: outer}, SysAct{A: "Frag", F: 1, C: outer})
	}
	if r.Intn(40) == 0 {
		// depth: a value nested several hundred levels deep (a call whose argument is a call whose argument is ...) is
		// rendered with a File between two renders of a small statement with the same File
		a := newCell()
		h = append(h, SysAct{A: "NewId", N: fresh()})
		h = append(h, SysAct{A: "AppDot", C: a, N: fresh()})
		h = append(h, SysAct{A: "Frag", F: 1, C: a}, SysAct{A: "Plain", C: a})
		inner := newCell()
		h = append(h, SysAct{A: "NewId", N: fresh()})
		for i := 0; i < 280+r.Intn(60); i++ {
			o := newCell()
			h = append(h, SysAct{A: "NewId", N: fresh()})
			addReach(o, inner)
			h = append(h, SysAct{A: "AppGroup", C: o, N: []string{"call", "index"}[r.Intn(2)], Refs: []int{inner}})
			inner = o
		}
		h = append(h, SysAct{A: "Frag", F: 1, C: inner}, SysAct{A: "Plain", C: inner})
		h = append(h, SysAct{A: "Frag", F: 1, C: a}, SysAct{A: "Plain", C: a})
	}
	if r.Intn(8) == 0 {
		// front matter that names a path the File references: rendered, THEN the canonical import path is set to that very
		// path (or a header / package comment is added), rendered again - the annotation changes the package clause only
		q := sysPaths[r.Intn(len(sysPaths))]
		c := newCell()
		h = append(h, SysAct{A: "NewVar", N: fresh()})
		h = append(h, SysAct{A: "AppQual", C: c, P: q, N: sysSym(q)})
		f := 1 + r.Intn(nfiles)
		h = append(h, SysAct{A: "FileAdd", F: f, C: c}, SysAct{A: "Render", F: f})
		switch r.Intn(3) {
		case 0:
			h = append(h, SysAct{A: "Header", F: f, N: "generated; do not edit"})
		case 1:
			h = append(h, SysAct{A: "PkgComment", F: f, N: "Package main does things."})
		}
		h = append(h, SysAct{A: "Canonical", F: f, P: q}, SysAct{A: "Render", F: f}, SysAct{A: "Frag", F: f, C: c})
	}
	if r.Intn(4) == 0 {
		// a failing render in between: a statement is rendered on its own, then another statement that references a path
		// with the same base name FAILS to format (two adjacent identifiers), then the first is rendered again - the
		// failed call must leave nothing behind that changes what the first one renders
		pairs := [][2]string{{"x/d", "y/d"}, {"y/d", "x/d"}, {"math/rand", "crypto/rand"}, {"x/d", "z/d1"}}
		pq := pairs[r.Intn(len(pairs))]
		a := newCell()
		h = append(h, SysAct{A: "NewQual", P: pq[0], N: sysSym(pq[0])})
		h = append(h, SysAct{A: "AppDot", C: a, N: fresh()})
		b := newCell()
		h = append(h, SysAct{A: "NewQual", P: pq[1], N: sysSym(pq[1])})
		h = append(h, SysAct{A: "AppId", C: b, N: fresh()})
		first := r.Intn(2) == 0
		if first {
			h = append(h, SysAct{A: "Plain", C: a})
		}
		h = append(h, SysAct{A: "Plain", C: b}, SysAct{A: "Plain", C: a})
		if r.Intn(2) == 0 {
			h = append(h, SysAct{A: "Frag", F: 1, C: b}, SysAct{A: "Frag", F: 1, C: a}, SysAct{A: "Plain", C: a})
		}
	}
	if r.Intn(4) == 0 {
		// placeholders: a statement that renders nothing yet is made an operand (of a List, which has no tokens of its
		// own, or of a call), the whole is observed, THEN the placeholder is filled and the whole is observed again
		p := newCell()
		h = append(h, SysAct{A: "NewNull"})
		o := newCell()
		h = append(h, SysAct{A: "NewId", N: fresh()})
		addReach(o, p)
		h = append(h, SysAct{A: "AppGroup", C: o, D: r.Intn(2), N: []string{"list", "list", "call"}[r.Intn(3)], Refs: []int{p}})
		if r.Intn(2) == 0 {
			h = append(h, SysAct{A: "AppDot", C: o, N: fresh()})
		}
		obsv := func() {
			switch r.Intn(3) {
			case 0:
				h = append(h, SysAct{A: "Plain", C: o})
			case 1:
				h = append(h, SysAct{A: "Frag", F: 1, C: o})
			default:
				h = append(h, SysAct{A: "Plain", C: o}, SysAct{A: "Frag", F: 1 + r.Intn(nfiles), C: o})
			}
		}
		obsv()
		if r.Intn(2) == 0 {
			// ... or a CLONE of the (still empty) placeholder is filled and used as an operand: a statement whose first item
			// renders nothing is not itself nothing
			q := newCell()
			for x := range cells[p-1].reach {
				cells[q-1].reach[x] = true
			}
			h = append(h, SysAct{A: "Clone", C: p})
			if r.Intn(2) == 0 {
				h = append(h, SysAct{A: "AppId", C: q, N: fresh()})
			} else {
				pp := sysPaths[r.Intn(len(sysPaths))]
				h = append(h, SysAct{A: "AppQual", C: q, P: pp, N: sysSym(pp)})
			}
			o2 := newCell()
			h = append(h, SysAct{A: "NewId", N: fresh()})
			addReach(o2, q)
			if r.Intn(2) == 0 {
				h = append(h, SysAct{A: "AddRef", C: o2, D: q})
			} else {
				h = append(h, SysAct{A: "AppGroup", C: o2, D: r.Intn(2), N: []string{"call", "index", "list"}[r.Intn(3)], Refs: []int{q}})
			}
			h = append(h, SysAct{A: "Plain", C: o2})
			if r.Intn(2) == 0 {
				c2 := newCell()
				for x := range cells[o2-1].reach {
					cells[c2-1].reach[x] = true
				}
				h = append(h, SysAct{A: "Clone", C: o2}, SysAct{A: "Frag", F: 1, C: c2})
			}
		}
		switch r.Intn(3) {
		case 0:
			h = append(h, SysAct{A: "AppId", C: p, N: fresh()})
		case 1:
			h = append(h, SysAct{A: "AppDot", C: p, N: fresh()})
		default:
			q := sysPaths[r.Intn(len(sysPaths))]
			h = append(h, SysAct{A: "AppQual", C: p, P: q, N: sysSym(q)})
		}
		obsv()
	}
	for len(h) <= nops {
		nc := len(cells)
		f := 1 + r.Intn(nfiles)
		p := sysPaths[r.Intn(len(sysPaths))]
		switch k := r.Intn(23); {
		case k == 21:
			// front matter, at any point of the behaviour (also between two renders of the File)
			t := []string{"ca", "cb", "cc\ncd", "Package main does things.", "ce\n", "generated; do not edit"}[r.Intn(6)]
			h = append(h, SysAct{A: []string{"Header", "PkgComment"}[r.Intn(2)], F: f, N: t})
		case k == 22:
			if r.Intn(2) == 0 {
				// (also a path that the File references or may come to reference: the annotation names the package's canonical
				// import path and changes nothing else)
				h = append(h, SysAct{A: "Canonical", F: f, P: []string{"example.com/canon", "example.com/v2", p, p}[r.Intn(4)]})
			} else {
				h = append(h, SysAct{A: "Preamble", F: f, N: []string{"#include <a.h>", "int f();\nint g();", "#cgo LDFLAGS: -lm", "#include <math.h>\n"}[r.Intn(4)]})
			}
		case k < 2 || nc == 0:
			switch r.Intn(4) {
			case 3:
				newCell()
				h = append(h, SysAct{A: "NewNull"})
			case 0:
				newCell()
				h = append(h, SysAct{A: "NewVar", N: fresh()})
			case 1:
				newCell()
				h = append(h, SysAct{A: "NewId", N: fresh()})
			default:
				newCell()
				h = append(h, SysAct{A: "NewQual", P: p, N: sysSym(p)})
			}
		case k < 4:
			h = append(h, SysAct{A: "AppDot", C: 1 + r.Intn(nc), N: fresh()})
		case k < 5:
			h = append(h, SysAct{A: "AppId", C: 1 + r.Intn(nc), N: fresh()})
		case k < 7:
			h = append(h, SysAct{A: "AppQual", C: 1 + r.Intn(nc), P: p, N: sysSym(p)})
		case k < 9:
			c, d := 1+r.Intn(nc), 1+r.Intn(nc)
			if reaches(d, c) {
				continue
			}
			addReach(c, d)
			if r.Intn(2) == 0 {
				h = append(h, SysAct{A: "AddRef", C: c, D: d})
			} else {
				h = append(h, SysAct{A: "AppGroup", C: c, D: r.Intn(2), N: []string{"call", "index", "list"}[r.Intn(3)], Refs: []int{d}})
			}
		case k < 10:
			c := 1 + r.Intn(nc)
			n := newCell()
			for x := range cells[c-1].reach {
				cells[n-1].reach[x] = true
			}
			h = append(h, SysAct{A: "Clone", C: c})
		case k < 12:
			if f > 1 && r.Intn(5) == 0 {
				h = append(h, SysAct{A: "FileAddFile", F: f, D: 1 + r.Intn(f-1)}) // a File with a smaller number: no cycles
			} else {
				h = append(h, SysAct{A: "FileAdd", F: f, C: 1 + r.Intn(nc)})
			}
		case k < 13:
			key := fmt.Sprint(f, p)
			n := hintNames[r.Intn(len(hintNames))]
			if n == "" { // claims nothing: withdraws an earlier hint
				h = append(h, SysAct{A: "ImportName", F: f, P: p, N: n})
				continue
			}
			if n == "." || StdName(p) != "" && n != StdName(p) {
				continue
			}
			if c, ok := claims[key]; ok && c != n {
				continue
			}
			claims[key] = n
			h = append(h, SysAct{A: "ImportName", F: f, P: p, N: n})
		case k < 14:
			h = append(h, SysAct{A: "ImportAlias", F: f, P: p, N: hintNames[r.Intn(len(hintNames))]})
		case k < 15:
			// (Anon on a path that was already referenced with the File is outside C08: conservatively, no Anon once
			// anything has been rendered with the File - the scenario prefixes render with File 1 as well)
			seenRender := false
			for _, b := range h {
				if (b.A == "Render" || b.A == "Frag") && b.F == f {
					seenRender = true
				}
			}
			if seenRender || first.Files[f-1].Local == p {
				continue
			}
			h = append(h, SysAct{A: "Anon", F: f, P: p})
		case k < 18:
			h = append(h, SysAct{A: "Render", F: f})
			for _, q := range sysPaths { // conservative: after a render any path may be registered in f
				registered[fmt.Sprint(f, q)] = true
			}
		case k < 19:
			h = append(h, SysAct{A: "Plain", C: 1 + r.Intn(nc)})
		default:
			h = append(h, SysAct{A: "Frag", F: f, C: 1 + r.Intn(nc)})
			for _, q := range sysPaths {
				registered[fmt.Sprint(f, q)] = true
			}
		}
	}
	return h
}

func cmdSystem(args []string) {
	// usage: system <trace.ndjson> <stats.json> [<hists.ndjson>...] [--random n ops]
	tw := NewTraceWriter(args[0])
	info := map[string]Rec{}
	for _, p := range sysPaths {
		i := infoOf(p)
		info[p] = Rec{"std": i.Std, "guess": i.Guess, "quoted": i.Quoted, "real": i.Real, "lower": i.Lower, "sym": sysSym(p)}
	}
	sorted := append([]string{}, sysPaths...)
	sort.Strings(sorted)
	tw.Emit(Rec{"ev": "Universe", "paths": info, "sorted": sorted})
	seen := map[string]bool{}
	items := []json.RawMessage{}
	add := func(h []SysAct) {
		b, _ := json.Marshal(h)
		items = append(items, b)
	}
	for i := 2; i < len(args); i++ {
		if args[i] == "--random" {
			n, _ := strconv.Atoi(args[i+1])
			ops, _ := strconv.Atoi(args[i+2])
			i += 2
			r := newRand(777)
			for j := 0; j < n; j++ {
				add(randomSystemHistory(r, ops))
			}
			continue
		}
		readLines(args[i], func(line []byte) {
			if seen[string(line)] {
				return
			}
			seen[string(line)] = true
			var h []SysAct
			decodeTLCLine(line, &h)
			add(h)
		})
	}
	// the behaviours are executed by child processes (crash containment, see common.go)
	runContained(tw, "system-batch", items, 1, 60)
	tw.Close(args[1])
}

func cmdSystemBatch(args []string) {
	// usage: system-batch <trace part> <stats part> <first id>   (the behaviours as a JSON array on stdin)
	tw := NewTraceWriter(args[0])
	id, _ := strconv.Atoi(args[2])
	var hs [][]SysAct
	in, _ := io.ReadAll(os.Stdin)
	if err := json.Unmarshal(in, &hs); err != nil {
		fatal(err)
	}
	for _, h := range hs {
		ReplaySystem(tw, id, h)
		id++
	}
	tw.CloseChild(args[1])
}
