package main

// C01: go/ast -> recipe translator (the documented DSL element for each construct, DESIGN.md
// appendix A) over GOROOT/src, a vendored corpus and generated programs. Every file becomes a
// File history (package clause, import hints, one Add per declaration, Render) that is executed by
// ReplayHistory; the output is re-parsed and compared, declaration by declaration, with the source.

import (
	"bytes"
	"fmt"
	"go/ast"
	"go/build"
	"go/constant"
	"go/parser"
	"go/token"
	"os"
	"path/filepath"
	"reflect"
	"sort"
	"strconv"
	"strings"

	"github.com/dave/jennifer/jen"
)

type tx struct {
	imports map[string]string // local name -> path
	used    map[string]bool   // local names referenced by the declarations
	flat    bool              // operator expressions as ONE fluent chain instead of nested operands (every second file)
	layout  bool              // keep the source's line breaks inside expression lists and after binary operators as Line()
	idiom   bool              // keyed composite literals as Values(Dict{...}) and struct tags as Tag(map) where that denotes the same program
	fs      *token.FileSet
}

// brk: e starts on a later line than prev ends - the translation keeps that line break (layout may differ from the
// source, so nothing depends on it: half of the files keep them, half drop them)
func (t *tx) brk(prev token.Pos, e ast.Node) bool {
	return t.layout && prev.IsValid() && e != nil && t.fs.Position(e.Pos()).Line > t.fs.Position(prev).Line
}

func lineFirst(n *Node) *Node {
	ln := &Node{K: "tok", T: "layout", V: "\n"}
	if n.K == "stmt" && n.Form == "" {
		return stm(append([]*Node{ln}, n.Items...)...)
	}
	return stm(ln, n)
}

// exprsAt: an expression list; open is the position of the opening delimiter (NoPos when the list has none)
func (t *tx) exprsAt(es []ast.Expr, open token.Pos) []*Node {
	out := []*Node{}
	prev := open
	for _, e := range es {
		n := t.expr(e)
		if t.brk(prev, e) {
			n = lineFirst(n)
		}
		out = append(out, n)
		prev = e.End()
	}
	return out
}

// chain: an operator expression.  The documented way to write `a & ^b` is the fluent chain Id("a").Op("&").Op("^").Id("b");
// operands that are chains themselves may equally be added as values of their own, Id("a").Op("&").Add(Op("^").Id("b")).
// Half of the files are translated the first way (operands spliced into one statement), half the second way.
func (t *tx) chain(parts ...*Node) *Node {
	if !t.flat {
		return stm(parts...)
	}
	out := []*Node{}
	for _, p := range parts {
		if p != nil && p.K == "stmt" && p.Form == "" {
			out = append(out, p.Items...)
		} else {
			out = append(out, p)
		}
	}
	return stm(out...)
}

func nq(path, name string) *Node {
	return grp("qual", &Node{K: "tok", T: "pkg", V: path}, idn(name))
}

func (t *tx) exprs(es []ast.Expr) []*Node {
	out := []*Node{}
	for _, e := range es {
		out = append(out, t.expr(e))
	}
	return out
}

func listOrOne(cs []*Node) *Node {
	if len(cs) == 1 {
		return cs[0]
	}
	return stm(grp("list", cs...))
}

// litNode: a literal token; V is the text of a standalone real render, GoVal the value for Lit().
var litCache = map[interface{}]string{}

func litNode(v interface{}, isRune bool) *Node {
	type key struct {
		v    interface{}
		rune bool
	}
	if txt, ok := litCache[key{v, isRune}]; ok {
		return &Node{K: "tok", T: "lit", V: txt, GoVal: v, IsRune: isRune}
	}
	n := litNodeSlow(v, isRune)
	litCache[key{v, isRune}] = n.V
	return n
}

func litNodeSlow(v interface{}, isRune bool) *Node {
	var s *jen.Statement
	if isRune {
		s = jen.LitRune(v.(rune))
	} else {
		s = jen.Lit(v)
	}
	txt := strings.TrimPrefix(rawOf(s), "nil:")
	if i := strings.Index(txt, "\n\n"); i >= 0 {
		txt = strings.TrimLeft(txt[i:], "\n")
	}
	return &Node{K: "tok", T: "lit", V: txt, GoVal: v, IsRune: isRune}
}

func (t *tx) lit(b *ast.BasicLit) *Node {
	switch b.Kind {
	case token.INT:
		v := constant.MakeFromLiteral(b.Value, b.Kind, 0)
		if i, ok := constant.Int64Val(v); ok && int64(int(i)) == i {
			return litNode(int(i), false)
		}
		return opn(b.Value)
	case token.FLOAT:
		v := constant.MakeFromLiteral(b.Value, b.Kind, 0)
		f, _ := constant.Float64Val(v)
		n := litNode(f, false)
		w := constant.MakeFromLiteral(n.V, token.FLOAT, 0)
		if w.Kind() != constant.Unknown && constant.Compare(v, token.EQL, w) {
			return n
		}
		return opn(b.Value)
	case token.IMAG:
		return opn(b.Value)
	case token.CHAR:
		r, _, _, err := strconv.UnquoteChar(b.Value[1:len(b.Value)-1], '\'')
		if err != nil {
			panic(err)
		}
		return litNode(r, true)
	case token.STRING:
		s, err := strconv.Unquote(b.Value)
		if err != nil {
			panic(err)
		}
		return litNode(s, false)
	}
	panic("lit")
}

// dictOf: a keyed composite literal whose keys are plain identifiers or literals, distinct and already in the order of
// their text, is the literal that Values(Dict{...}) renders (a Dict orders its pairs by the rendered key): the idiomatic
// way to write it with the DSL.  nil when the literal is not of that shape (or the option is off).
func (t *tx) dictOf(e *ast.CompositeLit) *Node {
	if !t.idiom || len(e.Elts) == 0 {
		return nil
	}
	texts := []string{}
	d := &Node{K: "dict"}
	for i, el := range e.Elts {
		kv, ok := el.(*ast.KeyValueExpr)
		if !ok {
			return nil
		}
		text := ""
		switch k := kv.Key.(type) {
		case *ast.Ident:
			if _, imported := t.imports[k.Name]; imported {
				return nil
			}
			text = k.Name
		case *ast.BasicLit:
			switch k.Kind {
			case token.STRING:
				v, err := strconv.Unquote(k.Value)
				if err != nil || strconv.Quote(v) != k.Value {
					return nil
				}
			case token.INT:
				if n, err := strconv.Atoi(k.Value); err != nil || strconv.Itoa(n) != k.Value {
					return nil
				}
			default:
				return nil
			}
			text = k.Value
		default:
			return nil
		}
		texts = append(texts, text)
		d.Items = append(d.Items, &Node{K: "pair", Items: []*Node{t.expr(kv.Key), t.expr(kv.Value)}})
		d.Order = append(d.Order, i+1)
	}
	for i := 1; i < len(texts); i++ {
		if texts[i-1] >= texts[i] {
			return nil
		}
	}
	return d
}

// tagOf: a struct tag of the conventional form whose keys are sorted is the literal that Tag(map) renders
func (t *tx) tagOf(b *ast.BasicLit) *Node {
	if !t.idiom || b.Kind != token.STRING {
		return nil
	}
	val, err := strconv.Unquote(b.Value)
	if err != nil || val == "" {
		return nil
	}
	keys := tagKeys(val)
	m := map[string]string{}
	canon := ""
	for i, k := range keys {
		v, ok := reflect.StructTag(val).Lookup(k)
		if !ok {
			return nil
		}
		if _, dup := m[k]; dup || (i > 0 && keys[i-1] >= k) {
			return nil
		}
		m[k] = v
		if i > 0 {
			canon += " "
		}
		canon += k + ":" + strconv.Quote(v)
	}
	if len(keys) == 0 || canon != val {
		return nil
	}
	return tagNode(m)
}

func (t *tx) fields(fl *ast.FieldList) []*Node {
	out := []*Node{}
	if fl == nil {
		return out
	}
	for _, f := range fl.List {
		s := stm()
		if len(f.Names) == 1 {
			s.Items = append(s.Items, idn(f.Names[0].Name))
		} else if len(f.Names) > 1 {
			ns := []*Node{}
			for _, n := range f.Names {
				ns = append(ns, stm(idn(n.Name)))
			}
			s.Items = append(s.Items, grp("list", ns...))
		}
		if f.Type != nil {
			s.Items = append(s.Items, t.expr(f.Type))
		}
		if f.Tag != nil {
			if tn := t.tagOf(f.Tag); tn != nil {
				s.Items = append(s.Items, tn)
			} else {
				s.Items = append(s.Items, t.lit(f.Tag))
			}
		}
		out = append(out, s)
	}
	return out
}

func (t *tx) funcType(s *Node, ft *ast.FuncType) *Node {
	if ft.TypeParams != nil {
		s.Items = append(s.Items, grp("types", t.fields(ft.TypeParams)...))
	}
	s.Items = append(s.Items, grp("params", t.fields(ft.Params)...))
	if ft.Results != nil {
		if len(ft.Results.List) == 1 && len(ft.Results.List[0].Names) == 0 && !ft.Results.Opening.IsValid() {
			s.Items = append(s.Items, t.expr(ft.Results.List[0].Type))
		} else {
			s.Items = append(s.Items, grp("params", t.fields(ft.Results)...))
		}
	}
	return s
}

func (t *tx) expr(e ast.Expr) *Node {
	switch e := e.(type) {
	case nil:
		return stm(&Node{K: "tok", T: "null"})
	case *ast.Ident:
		return stm(idn(e.Name))
	case *ast.BasicLit:
		return stm(t.lit(e))
	case *ast.ParenExpr:
		if t.brk(e.Lparen, e.X) {
			return stm(grp("parens", lineFirst(t.expr(e.X))))
		}
		return stm(grp("parens", t.expr(e.X)))
	case *ast.SelectorExpr:
		if id, ok := e.X.(*ast.Ident); ok && id.Obj == nil {
			if p, ok := t.imports[id.Name]; ok {
				t.used[id.Name] = true
				return stm(nq(p, e.Sel.Name))
			}
		}
		return t.chain(t.expr(e.X), &Node{K: "tok", T: "delim", V: "."}, idn(e.Sel.Name))
	case *ast.IndexExpr:
		if t.brk(e.Lbrack, e.Index) {
			return t.chain(t.expr(e.X), grp("index", lineFirst(t.expr(e.Index))))
		}
		return t.chain(t.expr(e.X), grp("index", t.expr(e.Index)))
	case *ast.IndexListExpr:
		return t.chain(t.expr(e.X), grp("types", t.exprsAt(e.Indices, e.Lbrack)...))
	case *ast.SliceExpr:
		items := []*Node{stm(opn("")), stm(opn(""))}
		if e.Low != nil {
			items[0] = t.expr(e.Low)
		}
		if e.High != nil {
			items[1] = t.expr(e.High)
			if e.Low != nil && t.brk(e.Low.End(), e.High) {
				items[1] = lineFirst(items[1])
			}
		}
		if e.Slice3 {
			items = append(items, t.expr(e.Max))
		}
		return t.chain(t.expr(e.X), grp("index", items...))
	case *ast.TypeAssertExpr:
		if e.Type == nil {
			return t.chain(t.expr(e.X), grp("assert", stm(kwn("type"))))
		}
		if t.brk(e.Lparen, e.Type) {
			return t.chain(t.expr(e.X), grp("assert", lineFirst(t.expr(e.Type))))
		}
		return t.chain(t.expr(e.X), grp("assert", t.expr(e.Type)))
	case *ast.CallExpr:
		args := t.exprsAt(e.Args, e.Lparen)
		if e.Ellipsis.IsValid() {
			last := args[len(args)-1]
			args[len(args)-1] = stm(last, opn("..."))
		}
		return t.chain(t.expr(e.Fun), grp("call", args...))
	case *ast.StarExpr:
		return t.chain(opn("*"), t.expr(e.X))
	case *ast.UnaryExpr:
		return t.chain(opn(e.Op.String()), t.expr(e.X))
	case *ast.BinaryExpr:
		if t.brk(e.OpPos, e.Y) {
			return t.chain(t.expr(e.X), opn(e.Op.String()), lineFirst(t.expr(e.Y)))
		}
		return t.chain(t.expr(e.X), opn(e.Op.String()), t.expr(e.Y))
	case *ast.KeyValueExpr:
		return stm(t.expr(e.Key), opn(":"), t.expr(e.Value))
	case *ast.CompositeLit:
		s := stm()
		if e.Type != nil {
			s.Items = append(s.Items, t.expr(e.Type))
		}
		if d := t.dictOf(e); d != nil {
			s.Items = append(s.Items, grp("values", d))
			return s
		}
		s.Items = append(s.Items, grp("values", t.exprsAt(e.Elts, e.Lbrace)...))
		return s
	case *ast.FuncLit:
		s := t.funcType(stm(kwn("func")), e.Type)
		s.Items = append(s.Items, grp("block", t.stmts(e.Body.List)...))
		return s
	case *ast.ArrayType:
		if e.Len == nil {
			return stm(grp("index"), t.expr(e.Elt))
		}
		return stm(grp("index", t.expr(e.Len)), t.expr(e.Elt))
	case *ast.Ellipsis:
		if e.Elt == nil {
			return stm(opn("..."))
		}
		return stm(opn("..."), t.expr(e.Elt))
	case *ast.MapType:
		return stm(grp("map", t.expr(e.Key)), t.expr(e.Value))
	case *ast.ChanType:
		switch e.Dir {
		case ast.SEND:
			return stm(kwn("chan"), opn("<-"), t.expr(e.Value))
		case ast.RECV:
			return stm(opn("<-"), kwn("chan"), t.expr(e.Value))
		}
		return stm(kwn("chan"), t.expr(e.Value))
	case *ast.FuncType:
		return t.funcType(stm(kwn("func")), e)
	case *ast.StructType:
		return stm(grp("struct", t.fields(e.Fields)...))
	case *ast.InterfaceType:
		ms := []*Node{}
		for _, f := range e.Methods.List {
			if len(f.Names) == 1 {
				if ft, ok := f.Type.(*ast.FuncType); ok {
					ms = append(ms, t.funcType(stm(idn(f.Names[0].Name)), ft))
					continue
				}
			}
			ms = append(ms, t.expr(f.Type))
		}
		return stm(grp("interface", ms...))
	}
	panic(fmt.Sprintf("expr %T", e))
}

func (t *tx) stmts(ss []ast.Stmt) []*Node {
	out := []*Node{}
	prev := token.NoPos
	for _, s := range ss {
		n := t.stmt(s)
		// a blank line in front of the statement is kept as g.Line().<statement> (layout option)
		if t.layout && prev.IsValid() && t.fs.Position(s.Pos()).Line > t.fs.Position(prev).Line+1 && n.K == "stmt" && n.Form == "" {
			n = lineFirst(n)
		}
		out = append(out, n)
		prev = s.End()
	}
	return out
}

func (t *tx) stmt(s ast.Stmt) *Node {
	switch s := s.(type) {
	case *ast.AssignStmt:
		return t.chain(listOrOne(t.exprsAt(s.Lhs, token.NoPos)), opn(s.Tok.String()), listOrOne(t.exprsAt(s.Rhs, token.NoPos)))
	case *ast.BlockStmt:
		return stm(grp("block", t.stmts(s.List)...))
	case *ast.BranchStmt:
		st := stm(kwn(s.Tok.String()))
		if s.Label != nil {
			st.Items = append(st.Items, idn(s.Label.Name))
		}
		return st
	case *ast.DeclStmt:
		return t.decl(s.Decl)
	case *ast.DeferStmt:
		return t.chain(kwn("defer"), t.expr(s.Call))
	case *ast.GoStmt:
		return t.chain(kwn("go"), t.expr(s.Call))
	case *ast.EmptyStmt:
		return stm(&Node{K: "tok", T: "null"})
	case *ast.ExprStmt:
		return t.expr(s.X)
	case *ast.IncDecStmt:
		return t.chain(t.expr(s.X), opn(s.Tok.String()))
	case *ast.SendStmt:
		return t.chain(t.expr(s.Chan), opn("<-"), t.expr(s.Value))
	case *ast.ReturnStmt:
		return stm(grp("return", t.exprsAt(s.Results, token.NoPos)...))
	case *ast.LabeledStmt:
		st := stm(idn(s.Label.Name), opn(":"))
		if es, ok := s.Stmt.(*ast.EmptyStmt); ok {
			if !es.Implicit {
				// an explicit empty statement after the label
				st.Items = append(st.Items, opn(";"))
			}
		} else {
			st.Items = append(st.Items, t.stmt(s.Stmt))
		}
		return st
	case *ast.IfStmt:
		var hd *Node
		if s.Init != nil {
			hd = grp("if", t.stmt(s.Init), t.expr(s.Cond))
		} else {
			hd = grp("if", t.expr(s.Cond))
		}
		st := stm(hd, grp("block", t.stmts(s.Body.List)...))
		if s.Else != nil {
			st.Items = append(st.Items, kwn("else"), t.stmt(s.Else))
		}
		return st
	case *ast.ForStmt:
		var hd *Node
		switch {
		case s.Init == nil && s.Post == nil && s.Cond == nil:
			hd = grp("for")
		case s.Init == nil && s.Post == nil:
			hd = grp("for", t.expr(s.Cond))
		default:
			items := []*Node{stm(opn("")), stm(opn("")), stm(opn(""))}
			if s.Init != nil {
				items[0] = t.stmt(s.Init)
			}
			if s.Cond != nil {
				items[1] = t.expr(s.Cond)
			}
			if s.Post != nil {
				items[2] = t.stmt(s.Post)
			}
			hd = grp("for", items...)
		}
		return stm(hd, grp("block", t.stmts(s.Body.List)...))
	case *ast.RangeStmt:
		h := stm()
		if s.Key != nil {
			lhs := []*Node{t.expr(s.Key)}
			if s.Value != nil {
				lhs = append(lhs, t.expr(s.Value))
			}
			h.Items = append(h.Items, listOrOne(lhs), opn(s.Tok.String()))
		}
		h.Items = append(h.Items, kwn("range"), t.expr(s.X))
		return stm(grp("for", h), grp("block", t.stmts(s.Body.List)...))
	case *ast.SwitchStmt:
		hdr := []*Node{}
		if s.Init != nil {
			hdr = append(hdr, t.stmt(s.Init))
			if s.Tag != nil {
				hdr = append(hdr, t.expr(s.Tag))
			} else {
				hdr = append(hdr, stm(opn("")))
			}
		} else if s.Tag != nil {
			hdr = append(hdr, t.expr(s.Tag))
		}
		return stm(grp("switch", hdr...), grp("block", t.clauses(s.Body.List)...))
	case *ast.TypeSwitchStmt:
		hdr := []*Node{}
		if s.Init != nil {
			hdr = append(hdr, t.stmt(s.Init))
		}
		hdr = append(hdr, t.stmt(s.Assign))
		return stm(grp("switch", hdr...), grp("block", t.clauses(s.Body.List)...))
	case *ast.SelectStmt:
		return stm(kwn("select"), grp("block", t.clauses(s.Body.List)...))
	}
	panic(fmt.Sprintf("stmt %T", s))
}

// a case body that starts with a block statement must be wrapped: Case(x).Block(Block(...)) keeps the inner braces
func (t *tx) clauses(ss []ast.Stmt) []*Node {
	out := []*Node{}
	for _, c := range ss {
		switch c := c.(type) {
		case *ast.CaseClause:
			if c.List == nil {
				out = append(out, stm(kwn("default"), grp("block", t.stmts(c.Body)...)))
			} else {
				out = append(out, stm(grp("case", t.exprsAt(c.List, token.NoPos)...), grp("block", t.stmts(c.Body)...)))
			}
		case *ast.CommClause:
			if c.Comm == nil {
				out = append(out, stm(kwn("default"), grp("block", t.stmts(c.Body)...)))
			} else {
				out = append(out, stm(grp("case", t.stmt(c.Comm)), grp("block", t.stmts(c.Body)...)))
			}
		}
	}
	return out
}

func (t *tx) spec(sp ast.Spec) *Node {
	switch sp := sp.(type) {
	case *ast.ValueSpec:
		ns := []*Node{}
		for _, n := range sp.Names {
			ns = append(ns, stm(idn(n.Name)))
		}
		s := stm(listOrOne(ns))
		if sp.Type != nil {
			s.Items = append(s.Items, t.expr(sp.Type))
		}
		if len(sp.Values) > 0 {
			s.Items = append(s.Items, opn("="), listOrOne(t.exprs(sp.Values)))
		}
		return s
	case *ast.TypeSpec:
		s := stm(idn(sp.Name.Name))
		if sp.TypeParams != nil {
			s.Items = append(s.Items, grp("types", t.fields(sp.TypeParams)...))
		}
		if sp.Assign.IsValid() {
			s.Items = append(s.Items, opn("="))
		}
		s.Items = append(s.Items, t.expr(sp.Type))
		return s
	}
	panic("spec")
}

func (t *tx) decl(d ast.Decl) *Node {
	switch d := d.(type) {
	case *ast.FuncDecl:
		s := stm(kwn("func"))
		if d.Recv != nil {
			s.Items = append(s.Items, grp("params", t.fields(d.Recv)...))
		}
		s.Items = append(s.Items, idn(d.Name.Name))
		t.funcType(s, d.Type)
		if d.Body != nil {
			s.Items = append(s.Items, grp("block", t.stmts(d.Body.List)...))
		}
		return s
	case *ast.GenDecl:
		var kw *Node
		switch d.Tok {
		case token.VAR:
			kw = kwn("var")
		case token.CONST:
			kw = kwn("const")
		case token.TYPE:
			kw = kwn("type")
		default:
			panic("gendecl tok")
		}
		if d.Lparen.IsValid() {
			specs := []*Node{}
			for _, sp := range d.Specs {
				specs = append(specs, t.spec(sp))
			}
			return stm(kw, grp("defs", specs...))
		}
		return stm(kw, t.spec(d.Specs[0]))
	}
	panic("decl")
}

// ---- canonical AST dump: positions, comments, ParenExpr, empty statements removed; literals by value ----

func dumpAST(b *bytes.Buffer, v reflect.Value) {
	if !v.IsValid() {
		b.WriteString("nil")
		return
	}
	switch v.Kind() {
	case reflect.Interface, reflect.Ptr:
		if v.IsNil() {
			b.WriteString("nil")
			return
		}
		if v.Kind() == reflect.Ptr {
			switch x := v.Interface().(type) {
			case *ast.ParenExpr:
				dumpAST(b, reflect.ValueOf(x.X))
				return
			case *ast.Object, *ast.Scope, *ast.CommentGroup, *ast.Comment:
				return
			case *ast.BasicLit:
				c := constant.MakeFromLiteral(x.Value, x.Kind, 0)
				fmt.Fprintf(b, "(lit %s %s)", x.Kind, c.ExactString())
				return
			}
		}
		dumpAST(b, v.Elem())
	case reflect.Struct:
		t := v.Type()
		fmt.Fprintf(b, "(%s", t.Name())
		for i := 0; i < v.NumField(); i++ {
			f := t.Field(i)
			if f.Type == reflect.TypeOf(token.Pos(0)) {
				if (t.Name() == "GenDecl" && f.Name == "Lparen") || (t.Name() == "CallExpr" && f.Name == "Ellipsis") || (t.Name() == "TypeSpec" && f.Name == "Assign") {
					fmt.Fprintf(b, " %s=%v", f.Name, v.Field(i).Interface().(token.Pos).IsValid())
				}
				continue
			}
			if f.Name == "Doc" || f.Name == "Comment" || f.Name == "Obj" || f.Name == "Incomplete" || f.Name == "Implicit" {
				continue
			}
			fmt.Fprintf(b, " %s=", f.Name)
			dumpAST(b, v.Field(i))
		}
		b.WriteString(")")
	case reflect.Slice:
		b.WriteString("[")
		for i := 0; i < v.Len(); i++ {
			e := v.Index(i)
			if e.Kind() == reflect.Interface && !e.IsNil() {
				if _, ok := e.Interface().(*ast.EmptyStmt); ok {
					continue
				}
			}
			dumpAST(b, e)
			b.WriteString(" ")
		}
		b.WriteString("]")
	default:
		fmt.Fprintf(b, "%v", v.Interface())
	}
}

func declDump(n ast.Node) string {
	var b bytes.Buffer
	dumpAST(&b, reflect.ValueOf(n))
	return b.String()
}

type impSpec struct{ name, path string }

// SourceInfo is what C01 compares the re-parsed output with.
type SourceInfo struct {
	Pkg     string
	Imports map[impSpec]bool
	Decls   []string
	Used    map[impSpec]bool // imports the declarations refer to (they must be in the output)
	Known   string           // key of a known finding this file triggers ("" = none)
	Skip    string           // reason the file is outside the domain ("" = in domain)
}

func realImportName(path string) string {
	if n := StdName(path); n != "" {
		return n
	}
	p := path
	if i := strings.LastIndex(p, "/"); i >= 0 {
		p = p[i+1:]
	}
	// module major version suffixes: the package is named by the element before /vN
	if len(p) >= 2 && p[0] == 'v' && strings.Trim(p[1:], "0123456789") == "" {
		q := strings.TrimSuffix(path, "/"+p)
		if i := strings.LastIndex(q, "/"); i >= 0 {
			q = q[i+1:]
		}
		return q
	}
	return p
}

// TranslateFile turns one Go source file into a File history and the facts to compare the output with.
func TranslateFile(fn string, src []byte) (h []Action, info *SourceInfo, err error) {
	return TranslateFileMode(fn, src, -1)
}

// mode: bit 0 = operator expressions as one fluent chain, bit 1 = the source's line breaks kept as Line(), bit 2 = keyed
// literals as Dict and struct tags as Tag(map) where they denote the same; -1: chosen per file
func TranslateFileMode(fn string, src []byte, mode int) (h []Action, info *SourceInfo, err error) {
	if mode < 0 {
		mode = len(src) % 8
	}
	fs := token.NewFileSet()
	af, perr := parser.ParseFile(fs, fn, src, parser.ParseComments)
	if perr != nil {
		return nil, &SourceInfo{Skip: "does not parse"}, nil
	}
	info = &SourceInfo{Pkg: af.Name.Name, Imports: map[impSpec]bool{}}
	t := &tx{imports: map[string]string{}, used: map[string]bool{}, flat: mode&1 == 1, layout: mode&2 == 2, idiom: mode&4 == 4, fs: fs}
	a := Action{A: "New", Name: af.Name.Name}
	h = []Action{a}
	seenPath := map[string]string{}
	for _, d := range af.Decls {
		gd, ok := d.(*ast.GenDecl)
		if !ok || gd.Tok != token.IMPORT {
			continue
		}
		for _, sp := range gd.Specs {
			is := sp.(*ast.ImportSpec)
			p, _ := strconv.Unquote(is.Path.Value)
			name := ""
			if is.Name != nil {
				name = is.Name.Name
			}
			if prev, dup := seenPath[p]; dup && prev != name {
				info.Known = "F12"
			}
			seenPath[p] = name
			if p == "C" {
				if gd.Doc != nil {
					pre := []string{}
					for _, c := range gd.Doc.List {
						pre = append(pre, c.Text)
					}
					h[0].Preamble = append(h[0].Preamble, strings.Join(pre, "\n"))
				}
				t.imports["C"] = "C"
				info.Imports[impSpec{"", "C"}] = true
				continue
			}
			switch name {
			case ".":
				info.Skip = "dot-import (attribution of bare identifiers needs type information)"
				return nil, info, nil
			case "_":
				h = append(h, Action{A: "Anon", P: p})
				info.Imports[impSpec{"_", p}] = true
			case "":
				n := realImportName(p)
				t.imports[n] = p
				if StdName(p) == "" || StdName(p) == n {
					h = append(h, Action{A: "ImportName", P: p, N: n})
				}
				info.Imports[impSpec{"", p}] = true
			default:
				t.imports[name] = p
				h = append(h, Action{A: "ImportAlias", P: p, N: name})
				info.Imports[impSpec{name, p}] = true
			}
		}
	}
	func() {
		defer func() {
			if r := recover(); r != nil {
				err = fmt.Errorf("translator: %v", r)
			}
		}()
		for _, d := range af.Decls {
			if gd, isg := d.(*ast.GenDecl); isg && gd.Tok == token.IMPORT {
				continue
			}
			info.Decls = append(info.Decls, declDump(d))
			h = append(h, Action{A: "Add", Tree: t.decl(d)})
		}
	}()
	if err != nil {
		return nil, info, err
	}
	info.Used = map[impSpec]bool{}
	for k := range info.Imports {
		n := k.name
		if n == "" {
			n = realImportName(k.path)
		}
		if k.name == "_" || t.used[n] {
			info.Used[k] = true
		}
	}
	h = append(h, Action{A: "Render"})
	return h, info, nil
}

// CompareOutput re-parses a rendered file and compares it with the source facts.
func CompareOutput(out []byte, info *SourceInfo) Rec {
	r := Rec{"parses": false, "pkgeq": false, "impeq": false, "asteq": false, "ndecls": len(info.Decls), "ndiff": 0, "firstdiff": "", "impdiff": ""}
	of, err := parser.ParseFile(token.NewFileSet(), "out.go", out, 0)
	if err != nil {
		r["firstdiff"] = err.Error()
		return r
	}
	r["parses"] = true
	r["pkgeq"] = of.Name.Name == info.Pkg
	got := map[impSpec]bool{}
	decls := []string{}
	for _, d := range of.Decls {
		if gd, isg := d.(*ast.GenDecl); isg && gd.Tok == token.IMPORT {
			for _, sp := range gd.Specs {
				is := sp.(*ast.ImportSpec)
				p, _ := strconv.Unquote(is.Path.Value)
				n := ""
				if is.Name != nil {
					n = is.Name.Name
				}
				got[impSpec{n, p}] = true
			}
			continue
		}
		decls = append(decls, declDump(d))
	}
	// imports that the source declares but never references are not reproduced (jennifer imports what is used):
	// compare the USED imports: every import of the output must be one of the source with the same name, and every
	// source import that the output lacks must be unreferenced in the source
	impeq := true
	diff := []string{}
	for k := range got {
		if !info.Imports[k] {
			impeq = false
			diff = append(diff, "extra "+k.name+" "+k.path)
		}
	}
	for k := range info.Used {
		if !got[k] {
			impeq = false
			diff = append(diff, "missing "+k.name+" "+k.path)
		}
	}
	sort.Strings(diff)
	r["impeq"] = impeq
	r["impdiff"] = strings.Join(diff, "; ")
	ndiff := 0
	if len(decls) != len(info.Decls) {
		ndiff = 1
		r["firstdiff"] = fmt.Sprintf("%d declarations instead of %d", len(decls), len(info.Decls))
	} else {
		for i := range decls {
			if decls[i] != info.Decls[i] {
				if ndiff == 0 {
					a, b := info.Decls[i], decls[i]
					k := 0
					for k < len(a) && k < len(b) && a[k] == b[k] {
						k++
					}
					lo := k - 60
					if lo < 0 {
						lo = 0
					}
					hi := func(s string) int {
						if k+60 < len(s) {
							return k + 60
						}
						return len(s)
					}
					r["firstdiff"] = fmt.Sprintf("decl %d src …%s out …%s", i, a[lo:hi(a)], b[lo:hi(b)])
				}
				ndiff++
			}
		}
	}
	r["ndiff"] = ndiff
	r["asteq"] = ndiff == 0
	return r
}

func safelyBytes(fn func() []byte) (out []byte) {
	defer func() {
		if recover() != nil {
			out = nil
		}
	}()
	return fn()
}

// corpusFiles lists the .go files of GOROOT/src (behind a symlink) and of the vendored corpus.
func corpusFiles(extra string) []string {
	files := []string{}
	add := func(root string) {
		r, err := filepath.EvalSymlinks(root)
		if err != nil {
			return
		}
		filepath.Walk(r, func(p string, info os.FileInfo, err error) error {
			if err != nil {
				return nil
			}
			if info.IsDir() {
				if info.Name() == "testdata" && root != extra {
					return filepath.SkipDir
				}
				return nil
			}
			if strings.HasSuffix(p, ".go") || strings.HasSuffix(p, ".go.txt") {
				files = append(files, p)
			}
			return nil
		})
	}
	if extra != "" {
		add(extra)
	}
	add(filepath.Join(build.Default.GOROOT, "src"))
	return files
}

func cmdCorpus(args []string) {
	// usage: corpus <out.ndjson> <stats.json> <extra corpus dir or ""> <sample n, 0 = all> <shard i> <of n> <with trees for the model: every k-th file, 0 = none> [variant: C13|C14|C15]
	tw := NewTraceWriter(args[0])
	n, _ := strconv.Atoi(args[3])
	shard, _ := strconv.Atoi(args[4])
	of, _ := strconv.Atoi(args[5])
	all := corpusFiles(args[2])
	sort.Strings(all)
	files, goroot := []string{}, []string{}
	for _, f := range all {
		if args[2] != "" && strings.HasPrefix(f, args[2]) {
			files = append(files, f) // the vendored corpus is always included
		} else {
			goroot = append(goroot, f)
		}
	}
	if n > 0 && n < len(goroot) {
		r := newRand(5151)
		r.Shuffle(len(goroot), func(i, j int) { goroot[i], goroot[j] = goroot[j], goroot[i] })
		goroot = goroot[:n]
		sort.Strings(goroot)
	}
	// files named by known findings are always replayed, so that each listed finding is reproduced on every run
	if always := os.Getenv("VERIF_CORPUS_ALWAYS"); always != "" {
		root, _ := filepath.EvalSymlinks(filepath.Join(build.Default.GOROOT, "src"))
		have := map[string]bool{}
		for _, f := range goroot {
			have[f] = true
		}
		for _, rel := range strings.Split(always, ",") {
			f := filepath.Join(root, strings.TrimPrefix(rel, "GOROOT/src/"))
			if _, err := os.Stat(f); err == nil && !have[f] {
				goroot = append(goroot, f)
			}
		}
		sort.Strings(goroot)
	}
	files = append(files, goroot...)
	id := 0
	every, _ := strconv.Atoi(args[6])
	root, _ := filepath.EvalSymlinks(filepath.Join(build.Default.GOROOT, "src"))
	for i, fn := range files {
		if of > 1 && i%of != shard {
			continue
		}
		src, err := os.ReadFile(fn)
		if err != nil {
			continue
		}
		rel := fn
		if strings.HasPrefix(fn, root) {
			rel = "GOROOT/src" + fn[len(root):]
		} else if args[2] != "" && strings.HasPrefix(fn, args[2]) {
			rel = "corpus" + fn[len(args[2]):]
		}
		// the vendored corpus is translated in all eight ways (nested / fluent operands x layout dropped / kept x literal / Dict and Tag), every
		// other file in the way its length selects
		modes := []int{-1}
		if strings.HasPrefix(rel, "corpus") {
			modes = []int{0, 1, 2, 3, 4, 5, 6, 7}
		}
		for _, mode := range modes {
			func() {
				h, info, terr := TranslateFileMode(fn, src, mode)
				tw.Stats["files_seen"]++
				if terr != nil {
					tw.Stats["translator_gaps"]++
					tw.Distinct("translator_gap_kinds", terr.Error())
					return
				}
				if info.Skip != "" {
					tw.Stats["skipped: "+info.Skip]++
					return
				}
				id++
				h[0].SrcInfo = info
				h[0].SrcName = rel
				h[0].Light = every == 0 || id%every != 0 || len(src) > 60000
				if !h[0].Light {
					tw.Stats["files_compared_with_model"]++
				}
				if len(args) > 7 && args[7] != "" && info.Known != "" {
					return // a file that triggers a known finding of C01 is no reference for the variants
				}
				if len(args) > 7 && args[7] != "" {
					// program-level variant: the unchanged execution first (its renderings are the reference), then the variant
					hv, vi := MakeVariant(args[7], h, seedFromEnv()*7919+int64(i))
					baseF := safelyBytes(func() []byte { return RunHistory(h, false) })
					baseR := safelyBytes(func() []byte { return RunHistory(h, true) })
					if baseF == nil || baseR == nil || !bytes.HasPrefix(baseF, []byte("nil\n")) || !bytes.HasPrefix(baseR, []byte("nil\n")) {
						tw.Stats["variant_base_not_renderable"]++ // (a known finding of C01, or a translator gap: nothing to compare with)
						return
					}
					vi.BaseStat, vi.BaseOut, vi.BaseRaw = "nil", baseF[4:], baseR[4:]
					hv[0].Variant = vi
					if vi.N == 0 && args[7] != "C14" {
						tw.Stats["variant_without_injection"]++
						return
					}
					tw.Stats["variant_injections"] += vi.N
					h = hv
				}
				ReplayHistory(tw, id, h)
				tw.Stats["declarations"] += len(info.Decls)
				tw.Distinct("files_translated", rel)
			}()
		}
	}
	tw.Close(args[1])
}
