package main

// Program-level variants of corpus recipes (C13 C14 C15 quantify over "real and generated programs"): a source file
// that was translated into a File history is executed again in a changed way that the property says must not matter -
//   C13: nil / Null() / statements and delimiter-less groups made only of nulls injected into the list-like constructs,
//   C14: a random form (package function, Statement method, Group method, ...Func variant, LitFunc) at every node,
//   C15: comments added as items of their own and at the end of items of Block / Defs / Struct / Interface / case
//        bodies / the File -
// and compared with the unchanged execution (raw bytes, formatted bytes, code tokens) and with the source program.

import (
	"go/types"
	"math/rand"
	"reflect"
	"strconv"
	"strings"
)

type VariantInfo struct {
	Prop     string   // C13 | C14 | C15
	BaseRaw  []byte   // NoFormat rendering of the unchanged history
	BaseOut  []byte   // formatted rendering of the unchanged history
	BaseStat string   // status of the unchanged formatted render
	Texts    []string // C15: the comment texts that were added
	N        int      // number of injections / comments / nodes with a non-default form
	Seed     int64
}

func deepCopyNode(n *Node) *Node {
	if n == nil {
		return nil
	}
	c := *n
	c.Items = make([]*Node, len(n.Items))
	for i, it := range n.Items {
		c.Items[i] = deepCopyNode(it)
	}
	if n.Order != nil {
		c.Order = append([]int{}, n.Order...)
	}
	return &c
}

// the list-like constructs of C13 (struct / interface bodies and fixed-arity groups are not among them)
var c13Lists = map[string]bool{"call": true, "params": true, "list": true, "values": true, "index": true, "block": true, "defs": true, "case": true,
	"types": true, "union": true, "return": true, "if": true, "for": true, "switch": true, "append": true, "make": true, "min": true, "max": true,
	"print": true, "println": true, "custom": true}

func nullLike(r *rand.Rand) *Node {
	switch r.Intn(10) {
	case 8:
		return &Node{K: "nil", T: "stmt"} // a nil *Statement
	case 9:
		return &Node{K: "nil", T: "grp"} // a nil *Group
	case 0:
		return &Node{K: "nil"}
	case 1:
		return stm(&Node{K: "tok", T: "null"})
	case 2:
		return stm()
	case 3:
		return stm(&Node{K: "tok", T: "null"}, &Node{K: "tok", T: "null"})
	case 4:
		return stm(grp("list"))
	case 5:
		return stm(grp("union"))
	case 6:
		return stm(&Node{K: "tag", V: "", M: map[string]string{}})
	default:
		return stm(stm(&Node{K: "tok", T: "null"}), &Node{K: "nil"})
	}
}

// injectNulls adds null-like items at random positions of the list-like groups of the tree (in place) and returns how many.
func injectNulls(n *Node, r *rand.Rand) int {
	if n == nil {
		return 0
	}
	k := 0
	for _, it := range n.Items {
		k += injectNulls(it, r)
	}
	if n.K != "grp" || !c13Lists[n.Name] {
		return k
	}
	for _, it := range n.Items { // Values(Dict{...}) takes the Dict alone
		if it.K == "dict" {
			return k
		}
	}
	if r.Intn(3) != 0 {
		return k
	}
	m := 1 + r.Intn(3)
	for i := 0; i < m; i++ {
		pos := r.Intn(len(n.Items) + 1)
		n.Items = append(n.Items[:pos], append([]*Node{nullLike(r)}, n.Items[pos:]...)...)
		k++
	}
	return k
}

var c15Texts = []string{"note", "x := f(1)", "} ) ]", "a \"quoted\" word", "ends with slashes //", "not a */ ... no: star slash is excluded", "unicode é 日本",
	"two\nlines", "ends with newline\n", "two\n\nparagraphs", "if x {", "return", "TODO(me): fix", "100% sure", "-- dashes --", "`backquote`",
	"go:generate stringer -type=T", "go:noinline", "nolint:errcheck", "line x.go:1"}

func c15Text(r *rand.Rand, n int) string {
	t := c15Texts[r.Intn(len(c15Texts))]
	if strings.Contains(t, "*/") {
		t = "plain"
	}
	if r.Intn(40) == 0 {
		// a very long line (a generated description, a data URL): several thousand bytes without a line break
		t = strings.Repeat("long line ", 450+r.Intn(400)) + t
	}
	// every comment carries a number so that it can be found again
	if strings.HasSuffix(t, "\n") {
		return "c" + strconv.Itoa(n) + " " + t
	}
	return t + " c" + strconv.Itoa(n)
}

// endsWithComment: the rendering of n may end with a comment (a second comment on that line is outside the domain:
// "one comment per line")
func endsWithComment(n *Node) bool {
	switch n.K {
	case "cmt":
		return true
	case "stmt", "grp":
		if len(n.Items) > 0 {
			return endsWithComment(n.Items[len(n.Items)-1])
		}
	}
	return false
}

var c15Containers = map[string]bool{"block": true, "defs": true, "struct": true, "interface": true}

// injectComments adds comments to the multi-line containers of the tree: as items of their own and at the end of items.
func injectComments(n *Node, r *rand.Rand, texts *[]string) {
	if n == nil {
		return
	}
	for _, it := range n.Items {
		injectComments(it, r, texts)
	}
	if n.K != "grp" || !c15Containers[n.Name] {
		return
	}
	out := []*Node{}
	for _, it := range n.Items {
		if r.Intn(5) == 0 {
			t := c15Text(r, len(*texts))
			*texts = append(*texts, t)
			out = append(out, stm(CommentNode(t)))
		}
		if it.K == "stmt" && len(it.Items) > 0 && !endsWithComment(it) && r.Intn(5) == 0 { // (one comment per line)
			t := c15Text(r, len(*texts))
			*texts = append(*texts, t)
			it.Items = append(it.Items, CommentNode(t))
		}
		out = append(out, it)
	}
	if r.Intn(6) == 0 {
		t := c15Text(r, len(*texts))
		*texts = append(*texts, t)
		out = append(out, stm(CommentNode(t)))
	}
	n.Items = out
}

// MakeVariant returns the changed history for prop (the trees are deep copies) and its VariantInfo (without the base renderings).
func MakeVariant(prop string, h []Action, seed int64) ([]Action, *VariantInfo) {
	r := rand.New(rand.NewSource(seed))
	hv := make([]Action, len(h))
	copy(hv, h)
	vi := &VariantInfo{Prop: prop, Seed: seed}
	for i := range hv {
		if hv[i].A != "Add" || hv[i].Tree == nil {
			continue
		}
		hv[i].Tree = deepCopyNode(hv[i].Tree)
		switch prop {
		case "C13":
			vi.N += injectNulls(hv[i].Tree, r)
		case "C15":
			injectComments(hv[i].Tree, r, &vi.Texts)
			// file level: a comment as a declaration of its own, and at the end of a declaration
			if r.Intn(6) == 0 && hv[i].Tree.K == "stmt" && !endsWithComment(hv[i].Tree) {
				t := c15Text(r, len(vi.Texts))
				vi.Texts = append(vi.Texts, t)
				hv[i].Tree.Items = append(hv[i].Tree.Items, CommentNode(t))
			}
			vi.N = len(vi.Texts)
		}
	}
	return hv, vi
}

// isPlainPredeclared: a predeclared type, constant or nil (not a built-in FUNCTION: Recover() renders `recover()`)
func isPlainPredeclared(name string) bool {
	o := types.Universe.Lookup(name)
	if o == nil {
		return false
	}
	_, isBuiltin := o.(*types.Builtin)
	return !isBuiltin
}

// randomForms: a form for every node, reproducible from the seed. Func variants only where the API has them.
// nforms counts the nodes that get a non-default form, ncb those whose form involves a user callback.
func randomForms(seed int64, nforms, ncb *int) func(n *Node, first bool) string {
	r := rand.New(rand.NewSource(seed))
	decided := map[*Node]string{} // one decision per node (the Builder asks more than once)
	return func(n *Node, first bool) string {
		d, ok := decided[n]
		if !ok {
			d = "stmt"
			switch {
			case n.K == "grp" && n.Name != "qual":
				if _, has := pkgFuncs[title(n.Name)+"Func"]; has && r.Intn(3) == 0 {
					d = "funcvariant"
				}
			case n.K == "tok" && n.T == "lit":
				if n.GoVal != nil && r.Intn(4) == 0 {
					d = "funcvariant"
				}
			case n.K == "cmt":
				if r.Intn(2) == 0 {
					d = "funcvariant" // Commentf
				}
			case n.K == "tok" && n.T == "id" && n.V != "":
				if f, has := pkgFuncs[title(n.V)]; has && r.Intn(2) == 0 && reflect.TypeOf(f).NumIn() == 0 && isPlainPredeclared(n.V) {
					d = []string{"helper", "helperfunc"}[r.Intn(2)] // helperfunc: as a package function when it is the first item
				}
			}
			if d == "stmt" && r.Intn(2) == 0 {
				d = "func" // honoured only for the first item of a statement
			}
			decided[n] = d
			if d == "funcvariant" {
				*nforms++
				if n.K != "cmt" {
					*ncb++
				}
			}
			if strings.HasPrefix(d, "helper") {
				*nforms++
			}
		}
		if d == "helperfunc" && !first {
			return "helper"
		}
		if d == "func" {
			if first {
				if !ok {
					*nforms++
				}
				return "func"
			}
			return "stmt"
		}
		return d
	}
}

// randomDoSplits: for about one statement in six, a number of leading items that a Do callback writes (C14: Do is a
// construct with the three forms, and its callback runs once, inside the call).  ncb counts them.
func randomDoSplits(seed int64, nforms, ncb *int) func(n *Node) int {
	r := rand.New(rand.NewSource(seed ^ 0x5eed))
	decided := map[*Node]int{}
	return func(n *Node) int {
		d, ok := decided[n]
		if !ok {
			d = -1
			if r.Intn(6) == 0 {
				d = r.Intn(len(n.Items) + 1)
				*nforms++
				*ncb++
			}
			decided[n] = d
		}
		return d
	}
}

// variantFacts compares a variant's renderings with the unchanged execution.
func variantFacts(vi *VariantInfo, status string, out, raw []byte, cbBuild, cbRender, nfunc int) Rec {
	f := Rec{"prop": vi.Prop, "n": vi.N, "sameraw": string(raw) == string(vi.BaseRaw), "sameout": status == vi.BaseStat && string(out) == string(vi.BaseOut),
		"sametoks": true, "cmtok": true, "cbok": cbRender == 0 && cbBuild == nfunc, "basestatus": vi.BaseStat}
	if vi.Prop == "C15" {
		f["sametoks"] = strings.Join(CodeTokens(out), "\x00") == strings.Join(CodeTokens(vi.BaseOut), "\x00")
		cm := CommentTokens(out)
		all := true
		for _, t := range vi.Texts {
			want := normSpace(t)
			wantLine := !strings.Contains(t, "\n")
			found := false
			for _, c := range cm {
				if strings.Contains(normSpace(c), want) && strings.HasPrefix(c, "//") == wantLine {
					found = true
					break
				}
			}
			if !found {
				all = false
			}
		}
		f["cmtok"] = all
	}
	return f
}
