package main

import (
	"fmt"
	"os"
)

var commands = map[string]func([]string){
	"imports":      cmdImports,
	"cases":        cmdCases,
	"heap":         cmdHeap,
	"heap-batch":   cmdHeapBatch,
	"output":       cmdOutput,
	"det":          cmdDet,
	"corpus":       cmdCorpus,
	"forms":        cmdForms,
	"forms-large":  cmdFormsLarge,
	"lits-num":     cmdLitsNum,
	"lits-str":     cmdLitsStr,
	"lits-tag":     cmdLitsTag,
	"conc-sched":   cmdConcSched,
	"conc-orders":  cmdConcOrders,
	"conc-solo":    cmdConcSolo,
	"conc-free":    cmdConcFree,
	"ownpost":      cmdOwnPost,
	"system":       cmdSystem,
	"system-twin":  cmdSystemTwin,
	"system-batch": cmdSystemBatch,
	"names-post":   cmdNamesPost,
	"ownexamples":  cmdOwnExamples,
}

func main() {
	if len(os.Args) < 2 {
		fmt.Fprintln(os.Stderr, "usage: harness <command> ...")
		os.Exit(2)
	}
	c, ok := commands[os.Args[1]]
	if !ok {
		fmt.Fprintln(os.Stderr, "unknown command", os.Args[1])
		os.Exit(2)
	}
	c(os.Args[2:])
}
