package main

// Random DSL compositions over the specification's construct table (C02), valid templates
// with random damage, and random File settings.

import (
	"encoding/json"
	"math/rand"
	"os"
	"sort"
	"strconv"
)

type TableEntry struct {
	Open  string `json:"open"`
	Close string `json:"close"`
	Sep   string `json:"sep"`
	Multi bool   `json:"multi"`
	Arity int    `json:"arity"`
}

type SpecTable struct {
	Groups   map[string]TableEntry `json:"groups"`
	Keywords []string              `json:"keywords"`
	Idents   []string              `json:"idents"`
	names    []string
}

func LoadTable(path string) *SpecTable {
	b, err := os.ReadFile(path)
	if err != nil {
		fatal(err)
	}
	var t SpecTable
	if err := json.Unmarshal(b, &t); err != nil {
		fatal(err)
	}
	for n := range t.Groups {
		if n != "qual" {
			t.names = append(t.names, n)
		}
	}
	sort.Strings(t.names)
	sort.Strings(t.Keywords)
	return &t
}

var genOps = []string{"+", "-", "*", "/", "=", ":=", "==", "!=", "<", "<-", "...", "&", "&&", "!", ".", ",", ";", ":", "{", "}", "(", ")", "[", "]", "|", "~", "++"}
var genLits = []string{"1", "0", "42", "\"s\"", "\"a b\"", "2.5", "true", "\"line\\n\\n\\nbreaks\"", "\"tab\\t \""}
var genRawOps = []string{"`raw\n\n\nstring`", "`a\n\n\n\nb`"}
// (identifiers and raw tokens: among them texts that the formatter itself rewrites - number literals with upper-case
// prefixes and exponents, digit separators - when they are written as plain tokens)
var genIds = []string{"a", "b", "x", "f", "T", "err", "int", "string", "_", "0XFF", "1E6", "0B101", "0O17", "0x1P-2", "1_000", "0X_FF", "1i", "0Xabc"}
var genPaths = []string{"fmt", "x/d", "y/d", "loc/al", "dot/p", "os", "C", "z/go"}
var genComments = []string{"note", "a } b", "two\nlines", "ends\n", "x := 1", "see http://x//y", "blank\n\n\nlines inside", "  indented\n\n\n\n  more", "tab\tand trailing space "}

type TreeGen struct {
	r     *rand.Rand
	t     *SpecTable
	nsym  int
	paths map[string]bool
}

func (g *TreeGen) atom() *Node {
	r := g.r
	switch k := r.Intn(100); {
	case k < 28:
		return idn(genIds[r.Intn(len(genIds))])
	case k < 46:
		return opn(genOps[r.Intn(len(genOps))])
	case k < 48:
		return opn(genRawOps[r.Intn(len(genRawOps))])
	case k < 58:
		return kwn(g.t.Keywords[r.Intn(len(g.t.Keywords))])
	case k < 72:
		return lit(genLits[r.Intn(len(genLits))])
	case k < 76:
		return &Node{K: "tok", T: "null"}
	case k < 80:
		return opn("")
	case k < 82:
		return &Node{K: "tok", T: "layout", V: "\n"}
	case k < 92:
		p := genPaths[r.Intn(len(genPaths))]
		g.nsym++
		g.paths[p] = true
		return grp("qual", &Node{K: "tok", T: "pkg", V: p}, idn("S"+strconv.Itoa(g.nsym)))
	case k < 96:
		return CommentNode(genComments[r.Intn(len(genComments))])
	default:
		if r.Intn(2) == 0 {
			return &Node{K: "tag", V: "", M: map[string]string{}}
		}
		return tagNode(map[string]string{"json": "a", "db": "b c"})
	}
}

func (g *TreeGen) item(depth int) *Node {
	r := g.r
	if depth <= 0 || r.Intn(100) < 45 {
		return g.atom()
	}
	switch k := r.Intn(100); {
	case k < 70:
		name := g.t.names[r.Intn(len(g.t.names))]
		e := g.t.Groups[name]
		n := e.Arity
		if n < 0 {
			n = r.Intn(4)
		}
		items := []*Node{}
		if name == "values" && r.Intn(4) == 0 {
			// a Dict must be the only item of Values (precondition)
			d := &Node{K: "dict"}
			np := r.Intn(4)
			for i := 0; i < np; i++ {
				key := stm(idn("k" + strconv.Itoa(i)))
				if r.Intn(4) == 0 {
					key = stm(lit(strconv.Itoa(i)))
				}
				d.Items = append(d.Items, &Node{K: "pair", Items: []*Node{key, g.stmt(depth - 1)}})
				d.Order = append(d.Order, i+1)
			}
			return grp("values", d)
		}
		for i := 0; i < n; i++ {
			if r.Intn(20) == 0 {
				items = append(items, &Node{K: "nil", T: []string{"", "", "stmt", "grp"}[r.Intn(4)]})
			} else {
				items = append(items, g.stmt(depth-1))
			}
		}
		return grp(name, items...)
	case k < 78:
		items := []*Node{}
		for i := 0; i < r.Intn(3); i++ {
			items = append(items, g.stmt(depth-1))
		}
		return &Node{K: "grp", Name: "custom", Items: items, Open: []string{"", "<", "{"}[r.Intn(3)], Close: []string{"", ">", "}"}[r.Intn(3)],
			Sep: []string{"", ",", ";"}[r.Intn(3)], Multi: r.Intn(3) == 0}
	default:
		return g.stmt(depth - 1)
	}
}

func (g *TreeGen) stmt(depth int) *Node {
	n := 1 + g.r.Intn(4)
	if g.r.Intn(15) == 0 {
		n = 0
	}
	items := []*Node{}
	for i := 0; i < n; i++ {
		if g.r.Intn(25) == 0 {
			items = append(items, &Node{K: "nil", T: []string{"", "stmt", "grp"}[g.r.Intn(3)]}) // Add(nil) inside a statement: untyped, nil *Statement, nil *Group
			continue
		}
		items = append(items, g.item(depth))
	}
	return stm(items...)
}

func tagNode(m map[string]string) *Node {
	keys := []string{}
	for k := range m {
		keys = append(keys, k)
	}
	sort.Strings(keys)
	s := ""
	for _, k := range keys {
		if s != "" {
			s += " "
		}
		s += k + ":" + strconv.Quote(m[k])
	}
	if strconv.CanBackquote(s) {
		s = "`" + s + "`"
	} else {
		s = strconv.Quote(s)
	}
	return &Node{K: "tag", V: s, M: m}
}

// templates: small valid programs (file bodies)
func templates() [][]*Node {
	q := func(p, s string) *Node { return grp("qual", &Node{K: "tok", T: "pkg", V: p}, idn(s)) }
	return [][]*Node{
		{stm(kwn("func"), idn("main"), grp("params"), grp("block",
			stm(idn("x"), opn(":="), lit("1")),
			stm(grp("if", stm(idn("x"), opn(">"), lit("0"))), grp("block", stm(q("fmt", "Println"), grp("call", stm(lit("\"s\"")), stm(idn("x"))))), kwn("else"), grp("block", stm(grp("return")))),
			stm(grp("for", stm(idn("i"), opn(":="), lit("0")), stm(idn("i"), opn("<"), lit("3")), stm(idn("i"), opn("++"))), grp("block", stm(kwn("continue")))),
		))},
		{stm(kwn("type"), idn("T"), grp("struct", stm(idn("A"), idn("int"), tagNode(map[string]string{"json": "a", "JSON": "A", "Json": "b", "xml": "x,omitempty"})), stm(idn("B"), grp("index"), idn("string")))),
			stm(kwn("func"), grp("params", stm(idn("t"), opn("*"), idn("T"))), idn("M"), grp("params", stm(idn("v"), grp("map", stm(idn("string"))), idn("int"))), grp("params", stm(idn("int")), stm(idn("error"))), grp("block",
				stm(grp("switch", stm(idn("v"), grp("index", stm(lit("\"k\""))))), grp("block",
					stm(grp("case", stm(lit("1")), stm(lit("2"))), grp("block", stm(grp("return", stm(lit("1")), stm(idn("nil")))))),
					stm(kwn("default"), grp("block", stm(grp("return", stm(lit("0")), stm(q("os", "ErrNotExist")))))))),
			))},
		// number literals written as raw tokens in the spellings that gofmt itself rewrites (upper-case prefixes and exponents)
		{stm(kwn("var"), grp("defs", stm(idn("n1"), opn("="), idn("0XFF")), stm(idn("n2"), opn("="), idn("1E6")), stm(idn("n3"), opn("="), idn("0B101")),
			stm(idn("n4"), opn("="), idn("0O17")), stm(idn("n5"), opn("="), idn("0x1P-2")), stm(idn("n6"), opn("="), idn("1_000")), stm(idn("n7"), opn("="), idn("0Xabc")),
			stm(idn("n9"), opn("="), idn("0X1.8P1"))))},
		{stm(kwn("var"), grp("defs", stm(idn("a"), opn("="), lit("1")), stm(idn("b"), opn("="), idn("T"), grp("values", &Node{K: "dict", Order: []int{1, 2}, Items: []*Node{
			{K: "pair", Items: []*Node{stm(idn("A")), stm(lit("1"))}}, {K: "pair", Items: []*Node{stm(idn("B")), stm(q("x/d", "V"))}}}})))),
			stm(kwn("const"), idn("c"), opn("="), lit("\"s\"")),
			stm(kwn("func"), idn("g"), grp("types", stm(idn("K"), idn("comparable"))), grp("params", stm(idn("k"), idn("K"))), grp("block", stm(kwn("defer"), idn("f"), grp("call")), stm(kwn("go"), kwn("func"), grp("params"), grp("block"), grp("call"))))},
	}
}

// bigTemplates: valid programs of well over a hundred lines (a long function, many declarations)
func bigTemplates() [][]*Node {
	long := []*Node{stm(idn("x"), opn(":="), lit("0"))}
	for i := 0; i < 140; i++ {
		long = append(long, stm(idn("x"), opn("+="), lit(strconv.Itoa(i))))
	}
	long = append(long, stm(grp("return", stm(idn("x")))))
	decls := []*Node{}
	for i := 0; i < 150; i++ {
		decls = append(decls, stm(kwn("var"), idn("v"+strconv.Itoa(i)), opn("="), lit(strconv.Itoa(i))))
	}
	return [][]*Node{
		{stm(kwn("func"), idn("long"), grp("params"), idn("int"), grp("block", long...))},
		decls,
	}
}

// damage applies one random mutation to a copy of the trees
func damage(r *rand.Rand, t *SpecTable, body []*Node) []*Node {
	out := []*Node{}
	for _, tr := range body {
		out = append(out, cloneNode(tr))
	}
	var all []*Node
	for _, tr := range out {
		Walk(tr, func(n *Node) {
			// fixed-arity constructs keep their arity (the API enforces it)
			if n.K == "grp" && n.Name != "custom" && t.Groups[n.Name].Arity >= 0 {
				return
			}
			// a Dict must stay the only item of its Values group (documented precondition)
			if n.K == "grp" && n.Name == "values" && len(n.Items) > 0 && n.Items[0].K == "dict" {
				return
			}
			if (n.K == "stmt" || n.K == "grp") && len(n.Items) > 0 && !(n.K == "grp" && n.Name == "qual") {
				all = append(all, n)
			}
		})
	}
	if len(all) == 0 {
		return out
	}
	n := all[r.Intn(len(all))]
	i := r.Intn(len(n.Items))
	switch r.Intn(7) {
	case 6: // layout: a Line() in front of an item (g.Line().Return(..), a blank line between two statements of a block)
		n.Items = append(n.Items[:i:i], append([]*Node{{K: "tok", T: "layout", V: "\n"}}, n.Items[i:]...)...)
	case 0: // drop
		n.Items = append(n.Items[:i:i], n.Items[i+1:]...)
	case 1: // duplicate
		n.Items = append(n.Items[:i+1:i+1], n.Items[i:]...)
	case 2: // swap with neighbour
		if i+1 < len(n.Items) {
			n.Items[i], n.Items[i+1] = n.Items[i+1], n.Items[i]
		}
	case 3: // wrong container
		if n.K == "grp" && n.Name != "custom" {
			alts := []string{"block", "call", "index", "params", "values", "list", "case", "defs", "return", "if"}
			n.Name = alts[r.Intn(len(alts))]
		}
	case 5: // a nil item inside a statement (documented to vanish)
		n.Items = append(n.Items[:i:i], append([]*Node{{K: "nil", T: []string{"", "stmt", "grp"}[r.Intn(3)]}}, n.Items[i:]...)...)
	case 4: // stray token
		n.Items = append(n.Items[:i:i], append([]*Node{opn(genOps[r.Intn(len(genOps))])}, n.Items[i:]...)...)
	}
	return out
}

// ComposeDriver: random compositions and damaged programs under random File settings.
func ComposeDriver(tablePath string, n int) [][]Action { return ComposeDriverSeeded(tablePath, n, 0) }

func ComposeDriverSeeded(tablePath string, n int, salt int64) [][]Action {
	t := LoadTable(tablePath)
	r := newRand(9001 + salt)
	out := [][]Action{}
	tpls := templates()
	for i := 0; i < n; i++ {
		g := &TreeGen{r: r, t: t, paths: map[string]bool{}}
		a := Action{A: "New", Prefix: []string{"", "", "pkg"}[r.Intn(3)], Local: []string{"", "", "loc/al"}[r.Intn(3)]}
		switch r.Intn(6) {
		case 0:
			a.Preamble = []string{"#include <a.h>", "int f();\n\n\nint g();"}
		case 1:
			hs := []string{"Code generated. DO NOT EDIT.", "trailing blanks   ", "tab\tinside and after\t", "multi\nline with */ inside", "  leading blanks", "ends with newline\n", "//raw marker kept"}
			a.Headers = []string{hs[r.Intn(len(hs))]}
			if r.Intn(2) == 0 {
				a.Headers = append(a.Headers, hs[r.Intn(len(hs))])
			}
			a.Comments = []string{"Package main is generated.", []string{"second\nparagraph", "trailing blank ", "x */ y\nz"}[r.Intn(3)]}
		case 2:
			a.Canonical = "example.com/canon"
			a.Comments = []string{"Package doc"}
		}
		h := []Action{a}
		if r.Intn(3) == 0 {
			h = append(h, Action{A: "ImportAlias", P: "dot/p", N: "."})
		}
		if r.Intn(4) == 0 {
			h = append(h, Action{A: "ImportName", P: "x/d", N: "dee"})
		}
		if r.Intn(4) == 0 {
			h = append(h, Action{A: "ImportAlias", P: "y/d", N: []string{"d", "go", "q"}[r.Intn(3)]})
		}
		if r.Intn(5) == 0 {
			h = append(h, Action{A: "Anon", P: "anon/p"})
		}
		if r.Intn(12) == 0 {
			// a LONG program (no model comparison), valid or damaged - at a random place or at its very end (an error that
			// the formatter reports in the last lines of a long source)
			h[0].Light = true
			big := bigTemplates()[r.Intn(2)]
			trees := []*Node{}
			for _, tr := range big {
				trees = append(trees, cloneNode(tr))
			}
			switch r.Intn(3) {
			case 1:
				trees = damage(r, t, big)
			case 2:
				last := trees[len(trees)-1]
				if len(last.Items) > 0 && last.Items[len(last.Items)-1].K == "grp" && r.Intn(2) == 0 {
					g := last.Items[len(last.Items)-1]
					g.Items = append(g.Items, stm(grp("if", stm(idn("x"))), opn("{"))) // a brace that is never closed, at the end of the last body
				} else {
					trees = append(trees, stm(kwn("func"), idn("tail"), grp("params"), opn("{")))
				}
			}
			for _, tr := range trees {
				h = append(h, Action{A: "Add", Tree: tr})
			}
			h = append(h, Action{A: "Render"})
			out = append(out, h)
			continue
		}
		switch r.Intn(3) {
		case 0: // valid template
			for _, tr := range tpls[r.Intn(len(tpls))] {
				h = append(h, Action{A: "Add", Tree: cloneNode(tr)})
			}
		case 1: // template with one random damage
			for _, tr := range damage(r, t, tpls[r.Intn(len(tpls))]) {
				h = append(h, Action{A: "Add", Tree: tr})
			}
		default: // arbitrary composition
			k := 1 + r.Intn(3)
			for j := 0; j < k; j++ {
				h = append(h, Action{A: "Add", Tree: g.stmt(1 + r.Intn(3))})
			}
		}
		h = append(h, Action{A: "Render"})
		if r.Intn(4) == 0 {
			h = append(h, Action{A: "Frag", Tree: g.stmt(1 + r.Intn(2))})
		}
		out = append(out, h)
	}
	return out
}
