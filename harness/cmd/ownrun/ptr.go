package main

import "reflect"

func ptrOf(v interface{}) uintptr {
	rv := reflect.ValueOf(v)
	switch rv.Kind() {
	case reflect.Ptr, reflect.Map:
		return rv.Pointer()
	}
	return 0
}
