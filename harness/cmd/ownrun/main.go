// ownrun executes the repository's own examples and test-case tables (copied into verifharness/ownsrc by genown) and
// writes, for every jen value they print or list, the value's structure (jen.VerifDump), its raw rendering with a fresh
// File (jen.VerifRenderRaw), the File's import table after that, and the formatted rendering.  One JSON object per line.
package main

import (
	"bytes"
	"encoding/json"
	"fmt"
	"os"
	"sort"

	"github.com/dave/jennifer/jen"
	"verifharness/ownsrc"
	"verifharness/vfmt"
)

type rec map[string]interface{}

func table(f *jen.File) []rec {
	_, _, _, imports, _ := jen.VerifState(f)
	ps := []string{}
	for p := range imports {
		ps = append(ps, p)
	}
	sort.Strings(ps)
	out := []rec{}
	for _, p := range ps {
		out = append(out, rec{"path": p, "name": imports[p][0], "alias": imports[p][1] != ""})
	}
	return out
}

func safely(fn func() ([]byte, error)) (status string, out []byte, msg string) {
	defer func() {
		if p := recover(); p != nil {
			status, msg = "panic", fmt.Sprint(p)
		}
	}()
	b, err := fn()
	if err != nil {
		return "error", nil, err.Error()
	}
	return "nil", b, ""
}

// observe describes one captured value.
func observe(enc *json.Encoder, origin, name string, n int, x interface{}) {
	r := rec{"origin": origin, "name": name, "n": n}
	// the Dict iteration orders actually taken by the raw render
	visits := []rec{}
	lastText := ""
	jen.VerifHook = func(point string, f *jen.File, arg string) {
		if point == "dictkey" {
			lastText = arg
		}
	}
	jen.VerifHookObj = func(point string, f *jen.File, a, b interface{}) {
		if point == "dictkey" {
			visits = append(visits, rec{"dict": fmt.Sprintf("%x", ptr(a)), "key": fmt.Sprintf("%x", ptr(b)), "text": lastText})
		}
	}
	defer func() { jen.VerifHookObj, jen.VerifHook = nil, nil }()
	switch v := x.(type) {
	case *jen.File:
		name, path, prefix, imports, hints := jen.VerifState(v)
		_ = imports
		pkg, headers, comments, preamble := jen.VerifFileMeta(v)
		hs := []rec{}
		hp := []string{}
		for p := range hints {
			hp = append(hp, p)
		}
		sort.Strings(hp)
		for _, p := range hp {
			hs = append(hs, rec{"path": p, "name": hints[p][0], "alias": hints[p][1] != ""})
		}
		r["kind"] = "file"
		r["file"] = rec{"name": name, "pkg": pkg, "local": path, "prefix": prefix, "headers": headers, "comments": comments, "preamble": preamble,
			"canonical": v.CanonicalPath, "noformat": v.NoFormat, "hints": hs, "before": table(v)}
		r["tree"] = jen.VerifDump(v)
		was := v.NoFormat
		v.NoFormat = true
		st, raw, msg := safely(func() ([]byte, error) { var b bytes.Buffer; err := v.Render(&b); return b.Bytes(), err })
		v.NoFormat = was
		r["rawstatus"], r["raw"], r["rawmsg"] = st, string(raw), msg
		r["table"] = table(v)
		st, out, msg := safely(func() ([]byte, error) { var b bytes.Buffer; err := v.Render(&b); return b.Bytes(), err })
		r["status"], r["out"], r["msg"] = st, string(out), msg
	case jen.Code:
		f := jen.NewFile("")
		r["kind"] = "code"
		r["tree"] = jen.VerifDump(v)
		st, raw, msg := safely(func() ([]byte, error) { return jen.VerifRenderRaw(v, f) })
		r["rawstatus"], r["raw"], r["rawmsg"] = st, string(raw), msg
		r["table"] = table(f)
		st, out, msg := safely(func() ([]byte, error) {
			var b bytes.Buffer
			var err error
			switch c := v.(type) {
			case *jen.Statement:
				err = c.Render(&b)
			case *jen.Group:
				err = c.Render(&b)
			default:
				err = fmt.Errorf("not a Statement or Group")
			}
			return b.Bytes(), err
		})
		r["status"], r["out"], r["msg"] = st, string(out), msg
	default:
		return
	}
	r["visits"] = visits
	if err := enc.Encode(r); err != nil {
		panic(err)
	}
}

func main() {
	out, err := os.Create(os.Args[1])
	if err != nil {
		panic(err)
	}
	defer out.Close()
	enc := json.NewEncoder(out)
	enc.SetEscapeHTML(false)
	names := []string{}
	for n := range ownsrc.OwnExamples {
		names = append(names, n)
	}
	sort.Strings(names)
	for _, n := range names {
		vfmt.Captured = nil
		func() {
			defer func() { recover() }()
			ownsrc.OwnExamples[n]()
		}()
		for i, x := range vfmt.Captured {
			observe(enc, "example", n, i, x)
		}
	}
	for i, c := range ownsrc.OwnCases() {
		if c.Code == nil {
			continue
		}
		observe(enc, "case:"+c.Table, c.Desc, i, c.Code)
	}
}

func ptr(v interface{}) uintptr {
	return ptrOf(v)
}
