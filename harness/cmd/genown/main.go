// genown copies the repository's own example and table-driven test sources (package jen_test) into the package
// verifharness/ownsrc, with fmt replaced by the capturing shim, and writes a registry of the Example functions and of
// the test-case tables.  usage: genown <repo>/jen <outdir>
package main

import (
	"fmt"
	"go/ast"
	"go/parser"
	"go/token"
	"os"
	"path/filepath"
	"sort"
	"strings"
)

func main() {
	src, out := os.Args[1], os.Args[2]
	os.MkdirAll(out, 0755)
	files, _ := filepath.Glob(filepath.Join(src, "*_test.go"))
	sort.Strings(files)
	examples := []string{}
	tables := []string{}
	for _, fn := range files {
		fset := token.NewFileSet()
		f, err := parser.ParseFile(fset, fn, nil, parser.ParseComments)
		if err != nil || f.Name.Name != "jen_test" {
			continue
		}
		b, _ := os.ReadFile(fn)
		text := string(b)
		text = strings.Replace(text, "package jen_test", "package ownsrc", 1)
		text = strings.Replace(text, "\t\"fmt\"\n", "\tfmt \"verifharness/vfmt\"\n", 1)
		os.WriteFile(filepath.Join(out, strings.TrimSuffix(filepath.Base(fn), "_test.go")+"_own.go"), []byte(text), 0644)
		for _, d := range f.Decls {
			switch x := d.(type) {
			case *ast.FuncDecl:
				if x.Recv == nil && strings.HasPrefix(x.Name.Name, "Example") && x.Type.Params.NumFields() == 0 {
					examples = append(examples, x.Name.Name)
				}
			case *ast.GenDecl:
				for _, s := range x.Specs {
					if vs, ok := s.(*ast.ValueSpec); ok && len(vs.Values) == 1 {
						if cl, ok := vs.Values[0].(*ast.CompositeLit); ok {
							if at, ok := cl.Type.(*ast.ArrayType); ok {
								if id, ok := at.Elt.(*ast.Ident); ok && id.Name == "tc" {
									tables = append(tables, vs.Names[0].Name)
								}
							}
						}
					}
				}
			}
		}
	}
	var b strings.Builder
	b.WriteString("package ownsrc\n\nimport \"github.com/dave/jennifer/jen\"\n\n")
	b.WriteString("// OwnExamples: the repository's Example functions by name.\nvar OwnExamples = map[string]func(){\n")
	for _, e := range examples {
		fmt.Fprintf(&b, "\t%q: %s,\n", e, e)
	}
	b.WriteString("}\n\n// OwnCase is one entry of the repository's table-driven tests.\ntype OwnCase struct {\n\tTable, Desc string\n\tCode        jen.Code\n}\n\n")
	b.WriteString("func OwnCases() []OwnCase {\n\tout := []OwnCase{}\n")
	for _, t := range tables {
		fmt.Fprintf(&b, "\tfor _, c := range %s {\n\t\tout = append(out, OwnCase{%q, c.desc, c.code})\n\t}\n", t, t)
	}
	b.WriteString("\treturn out\n}\n")
	os.WriteFile(filepath.Join(out, "zz_registry.go"), []byte(b.String()), 0644)
}
