package main

// Own-test traces: the events written by jen/verif_trace_test.go while the repository's own
// tests run (hooks on) are completed with facts the specification needs but the tracer cannot
// know (what the tree believes the standard-library name of the registered path is, the path's
// code points for JenGuess, legality of the names) and written with uniform record shapes.

import (
	"encoding/json"
	"os"
)

func cmdOwnPost(args []string) {
	if len(args) < 3 {
		fatal("usage: ownpost <events.ndjson> <trace.ndjson> <stats.json>")
	}
	tw := NewTraceWriter(args[1])
	files := map[int]bool{}
	n := 0
	readLines(args[0], func(line []byte) {
		var e struct {
			Ev      string `json:"ev"`
			File    int    `json:"file"`
			Seq     int    `json:"seq"`
			Arg     string `json:"arg"`
			Local   string `json:"local"`
			Prefix  string `json:"prefix"`
			Imports []struct {
				Path  string `json:"path"`
				Name  string `json:"name"`
				Alias bool   `json:"alias"`
			} `json:"imports"`
			Hints []struct {
				Path  string `json:"path"`
				Name  string `json:"name"`
				Alias bool   `json:"alias"`
			} `json:"hints"`
		}
		if err := json.Unmarshal(line, &e); err != nil {
			fatal(err)
		}
		imps := []Rec{}
		for _, d := range e.Imports {
			imps = append(imps, Rec{"path": d.Path, "name": d.Name, "alias": d.Alias, "legal": LegalName(d.Name)})
		}
		hints := []Rec{}
		for _, d := range e.Hints {
			hints = append(hints, Rec{"path": d.Path, "name": d.Name, "alias": d.Alias})
		}
		info := Rec{"std": "", "lower": []int{}}
		if e.Ev == "register" {
			info = Rec{"std": probeStd(e.Arg), "lower": lowerCodes(e.Arg)}
			tw.Distinct("registered_paths", e.Arg)
		}
		files[e.File] = true
		n++
		tw.Emit(Rec{"ev": e.Ev, "file": e.File, "arg": e.Arg, "local": e.Local, "prefix": e.Prefix, "imports": imps, "hints": hints, "info": info})
		if n%40 == 1 {
			tw.Sample(Rec{"ev": e.Ev, "file": e.File, "arg": e.Arg, "imports": imps})
		}
	})
	tw.Traces = len(files)
	tw.Close(args[2])
	_ = os.Stdout
}
