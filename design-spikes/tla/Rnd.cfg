INIT Init
NEXT Next
