SPECIFICATION Spec
INVARIANT C05_Legal
INVARIANT C08_Stable
INVARIANT C05_Unique
POSTCONDITION Accepted
CHECK_DEADLOCK FALSE
