---- MODULE HeapProto ----
EXTENDS Naturals, Sequences, FiniteSets, TLC
CONSTANTS MaxCells, MaxOps, HeaderCopy
\* cell = [arr |-> array id, len |-> n]; arrays: id -> [cap, data: Seq(item)] ; item = [t, id]
VARIABLES cells, arrays, model, ntok, nops
vars == <<cells, arrays, model, ntok, nops>>
Tok(i) == [t |-> "tok", id |-> i]
Ref(c) == [t |-> "ref", id |-> c]
Items(c) == SubSeq(arrays[cells[c].arr].data, 1, cells[c].len)
RECURSIVE FlatSeq(_, _), Flat(_)
Flat(c) == FlatSeq(Items(c), <<>>)
FlatSeq(s, acc) == IF s = <<>> THEN acc ELSE
   FlatSeq(Tail(s), IF Head(s).t = "tok" THEN Append(acc, Head(s).id) ELSE acc \o Flat(Head(s).id))
RECURSIVE MFlatSeq(_, _)
MFlat(c) == MFlatSeq(model[c], <<>>)
MFlatSeq(s, acc) == IF s = <<>> THEN acc ELSE
   MFlatSeq(Tail(s), IF Head(s).t = "tok" THEN Append(acc, Head(s).id) ELSE acc \o MFlatSeq(model[Head(s).id], <<>>))
NewCap(old, need) == IF need > 2 * old THEN need ELSE 2 * old   \* Go growth for small slices (size classes ignored)
\* Go append of items xs to cell c
AppendTo(c, xs) ==
  LET h == cells[c]  a == arrays[h.arr]  n == h.len + Len(xs) IN
  IF n <= a.cap
  THEN /\ arrays' = [arrays EXCEPT ![h.arr].data = SubSeq(a.data, 1, h.len) \o xs \o SubSeq(a.data, n + 1, Len(a.data))]
       /\ cells' = [cells EXCEPT ![c].len = n]
  ELSE LET id == Len(arrays) + 1 IN
       /\ arrays' = Append(arrays, [cap |-> NewCap(a.cap, n), data |-> SubSeq(a.data, 1, h.len) \o xs])
       /\ cells' = [cells EXCEPT ![c] = [arr |-> id, len |-> n]]
Init == cells = <<>> /\ arrays = <<>> /\ model = <<>> /\ ntok = 0 /\ nops = 0
Step == nops < MaxOps /\ nops' = nops + 1
Toks(k) == [i \in 1..k |-> Tok(ntok + i)]
New(k) == /\ Step /\ Len(cells) < MaxCells
          /\ arrays' = Append(arrays, [cap |-> k, data |-> Toks(k)])
          /\ cells' = Append(cells, [arr |-> Len(arrays) + 1, len |-> k])
          /\ model' = Append(model, Toks(k)) /\ ntok' = ntok + k
App(c, k) == /\ Step /\ AppendTo(c, Toks(k)) /\ model' = [model EXCEPT ![c] = @ \o Toks(k)] /\ ntok' = ntok + k
Clone(c) == /\ Step /\ Len(cells) < MaxCells /\ UNCHANGED ntok
            /\ IF HeaderCopy
               THEN /\ cells' = Append(cells, cells[c]) /\ UNCHANGED arrays
                    /\ model' = Append(model, model[c])        \* intended: a copy
               ELSE /\ arrays' = Append(arrays, [cap |-> 1, data |-> <<Ref(c)>>])
                    /\ cells' = Append(cells, [arr |-> Len(arrays) + 1, len |-> 1])
                    /\ model' = Append(model, <<Ref(c)>>)      \* a view
Next == \/ \E k \in 1..3 : New(k)
        \/ \E c \in DOMAIN cells, k \in 1..2 : App(c, k)
        \/ \E c \in DOMAIN cells : Clone(c)
Spec == Init /\ [][Next]_vars
ListModel == \A c \in DOMAIN cells : Flat(c) = MFlat(c)
====
