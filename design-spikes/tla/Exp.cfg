INIT Init
NEXT Next
