---- MODULE RenderProto ----
EXTENDS Naturals, Sequences, FiniteSets, TLC, Json

Trace == ndJsonDeserialize("/tmp/spike/tla/rtrace.ndjson")

RECURSIVE IsNull(_), AllNull(_), Render(_, _), Items(_, _, _, _), StmtItems(_, _, _)

AllNull(items) == \A i \in DOMAIN items : IsNull(items[i])
IsNull(c) == CASE c.k = "nil" -> TRUE
               [] c.k = "tok" -> c.t = "null"
               [] c.k = "stmt" -> AllNull(c.items)
               [] c.k = "grp" -> c.open = "" /\ c.close = "" /\ AllNull(c.items)
               [] OTHER -> FALSE

\* render group items from index i; first = no item emitted yet
Items(g, i, first, acc) ==
  IF i > Len(g.items) THEN <<acc, first>>
  ELSE LET c == g.items[i] IN
       IF IsNull(c) THEN Items(g, i + 1, first, acc)
       ELSE Items(g, i + 1, FALSE,
                  acc \o (IF ~first THEN g.sep ELSE "") \o (IF g.multi THEN "\n" ELSE "") \o Render(c, [k |-> "nil"]))

StmtItems(s, i, acc) ==
  IF i > Len(s.items) THEN acc
  ELSE LET c == s.items[i] IN
       IF IsNull(c) THEN StmtItems(s, i + 1, acc)
       ELSE StmtItems(s, i + 1, <<acc[1] \o (IF acc[2] THEN "" ELSE " ") \o Render(c, IF i > 1 THEN s.items[i-1] ELSE [k |-> "nil"]), FALSE>>)

Render(c, prev) ==
  CASE c.k = "tok" -> (IF c.v = "default" /\ c.t = "kw" THEN "default:" ELSE c.v)
    [] c.k = "stmt" -> StmtItems(c, 1, <<"", TRUE>>)[1]
    [] c.k = "grp" ->
         IF c.name = "types" /\ AllNull(c.items) THEN ""
         ELSE LET caseblk == c.name = "block" /\ ((prev.k = "grp" /\ prev.name = "case") \/ (prev.k = "tok" /\ prev.v = "default"))
                  open == IF caseblk THEN "" ELSE c.open
                  close == IF caseblk THEN "" ELSE c.close
                  r == Items(c, 1, TRUE, "")
              IN open \o r[1] \o (IF ~r[2] /\ c.multi /\ close # "" THEN (IF c.sep = "," THEN ",\n" ELSE "\n") ELSE "") \o close

VARIABLES l
Init == l = 1
Next == l <= Len(Trace) /\ l' = l + 1
Spec == Init /\ [][Next]_l
Conform == l <= Len(Trace) => Render(Trace[l].tree, [k |-> "nil"]) = Trace[l].out
Accepted == TLCGet("stats").diameter - 1 = Len(Trace)
====
