---- MODULE FileProto ----
EXTENDS Naturals, Sequences, FiniteSets, TLC, Json, CSV

Trace == ndJsonDeserialize("/tmp/spike/tla/ftrace.ndjson")

\* jennifer's reserved list (pinned tree: no any/comparable)
Reserved == {"break","default","func","interface","select","case","defer","go","map","struct","chan","else","goto","package","switch","const","fallthrough","if","range","type","continue","for","import","return","var",
  "bool","byte","complex64","complex128","error","float32","float64","int","int8","int16","int32","int64","rune","string","uint","uint8","uint16","uint32","uint64","uintptr","true","false","iota","nil","append","cap","close","clear","min","max","complex","copy","delete","imag","len","make","new","panic","print","println","real","recover","err"}

NilC == [k |-> "nil"]
None == [name |-> "", alias |-> FALSE]

\* ---- File state: cfg (constant during a render) + imports (sequence of [path,name,alias]) ----
Find(imps, p) == LET S == {i \in DOMAIN imps : imps[i].path = p} IN IF S = {} THEN None ELSE imps[CHOOSE i \in S : TRUE]
Set(imps, p, n, a) ==
  IF \E i \in DOMAIN imps : imps[i].path = p
  THEN [i \in DOMAIN imps |-> IF imps[i].path = p THEN [path |-> p, name |-> n, alias |-> a] ELSE imps[i]]
  ELSE Append(imps, [path |-> p, name |-> n, alias |-> a])
Hint(cfg, p) == IF p \in DOMAIN cfg.hints THEN cfg.hints[p] ELSE None
IsDot(cfg, p) == Hint(cfg, p).name = "." /\ Hint(cfg, p).alias
IsLocal(cfg, p) == cfg.local = p
IsValid(imps, a) == a = "." \/ (a \notin Reserved /\ \A i \in DOMAIN imps : imps[i].name # a)
Suffix(n, i) == IF i = 0 THEN n ELSE n \o ToString(i)

\* register, pinned-tree shape (prefix after the uniqueness test)
Reg(cfg, imps, p) ==
  IF IsLocal(cfg, p) THEN <<imps, "">>
  ELSE LET cur == Find(imps, p) IN
  IF cur.name # "" /\ cur.name # "_" THEN <<imps, cur.name>>
  ELSE IF p = "C" THEN <<Set(imps, "C", "C", FALSE), "C">>
  ELSE LET h == Hint(cfg, p)
           cand == IF h.name # "" THEN h
                   ELSE IF cfg.paths[p].std # "" THEN [name |-> cfg.paths[p].std, alias |-> FALSE]
                   ELSE [name |-> cfg.paths[p].guess, alias |-> TRUE]
           i == CHOOSE i \in 0..(Len(imps) + 2) : IsValid(imps, Suffix(cand.name, i)) /\ \A j \in 0..(i-1) : ~IsValid(imps, Suffix(cand.name, j))
           u == Suffix(cand.name, i)
           al == cand.alias \/ u # cand.name
           fin == IF cfg.prefix # "" /\ al THEN cfg.prefix \o "_" \o u ELSE u
       IN <<Set(imps, p, fin, al), fin>>

\* ---- rendering: returns <<text, imports>> ----
RECURSIVE IsNull(_, _), AllNull(_, _), R(_, _, _, _), GI(_, _, _, _, _, _), SI(_, _, _, _, _, _), DictKeys(_, _, _, _, _), DictOut(_, _, _, _, _, _)
AllNull(cfg, items) == \A i \in DOMAIN items : IsNull(cfg, items[i])
IsNull(cfg, c) ==
  CASE c.k = "nil" -> TRUE
    [] c.k = "tok" -> IF c.t = "pkg" THEN IsDot(cfg, c.v) \/ IsLocal(cfg, c.v) ELSE c.t = "null"
    [] c.k = "stmt" -> AllNull(cfg, c.items)
    [] c.k = "grp" -> c.open = "" /\ c.close = "" /\ AllNull(cfg, c.items)
    [] c.k = "dict" -> \A i \in DOMAIN c.items : IsNull(cfg, c.items[i].items[1]) \/ IsNull(cfg, c.items[i].items[2])
    [] c.k = "cmt" -> FALSE

GI(cfg, g, i, first, acc, imps) ==
  IF i > Len(g.items) THEN <<acc, first, imps>>
  ELSE LET c == g.items[i]
           imps1 == IF c.k = "tok" /\ c.t = "pkg" THEN Reg(cfg, imps, c.v)[1] ELSE imps
       IN IF IsNull(cfg, c) THEN GI(cfg, g, i + 1, first, acc, imps1)
          ELSE LET r == R(cfg, c, NilC, imps1)
               IN GI(cfg, g, i + 1, FALSE, acc \o (IF ~first THEN g.sep ELSE "") \o (IF g.multi THEN "\n" ELSE "") \o r[1], r[2])

SI(cfg, s, i, first, acc, imps) ==
  IF i > Len(s.items) THEN <<acc, imps>>
  ELSE LET c == s.items[i] IN
       IF IsNull(cfg, c) THEN SI(cfg, s, i + 1, first, acc, imps)
       ELSE LET r == R(cfg, c, IF i > 1 THEN s.items[i-1] ELSE NilC, imps)
            IN SI(cfg, s, i + 1, FALSE, acc \o (IF first THEN "" ELSE " ") \o r[1], r[2])

\* pass 1 of Dict.render: render keys in the given (observed) order, registering imports; returns <<texts, imps>>
DictKeys(cfg, d, i, texts, imps) ==
  IF i > Len(d.items) THEN <<texts, imps>>
  ELSE LET k == d.items[i].items[1]  v == d.items[i].items[2] IN
       IF IsNull(cfg, k) \/ IsNull(cfg, v) THEN DictKeys(cfg, d, i + 1, Append(texts, ""), imps)
       ELSE LET r == R(cfg, k, NilC, imps) IN DictKeys(cfg, d, i + 1, Append(texts, r[1]), r[2])
\* pass 2: d.order = indices of live pairs sorted by key text (supplied by the recorder; TLC has no order on strings)
DictOut(cfg, d, ord, j, acc, imps) ==
  IF j > Len(ord) THEN <<acc, imps>>
  ELSE LET p == d.items[ord[j]]
           rk == R(cfg, p.items[1], NilC, imps)
           rv == R(cfg, p.items[2], NilC, rk[2])
           multi == Len(ord) > 1
       IN DictOut(cfg, d, ord, j + 1,
                  acc \o (IF j = 1 /\ multi THEN "\n" ELSE "") \o rk[1] \o ":" \o rv[1] \o (IF multi THEN ",\n" ELSE ""), rv[2])

R(cfg, c, prev, imps) ==
  CASE c.k = "tok" ->
         IF c.t = "pkg" THEN LET r == Reg(cfg, imps, c.v) IN <<r[2], r[1]>>
         ELSE IF c.t = "kw" /\ c.v = "default" THEN <<"default:", imps>> ELSE <<c.v, imps>>
    [] c.k = "cmt" -> <<c.v, imps>>     \* c.v = text already styled by the recorder's independent rule
    [] c.k = "stmt" -> SI(cfg, c, 1, TRUE, "", imps)
    [] c.k = "dict" -> LET p1 == DictKeys(cfg, c, 1, <<>>, imps)
                           live == SelectSeq(c.order, LAMBDA i : ~IsNull(cfg, c.items[i].items[1]) /\ ~IsNull(cfg, c.items[i].items[2]))
                       IN DictOut(cfg, c, live, 1, "", p1[2])
    [] c.k = "grp" ->
         IF c.name = "types" /\ AllNull(cfg, c.items) THEN <<"", imps>>
         ELSE LET cb == c.name = "block" /\ ((prev.k = "grp" /\ prev.name = "case") \/ (prev.k = "tok" /\ prev.t = "kw" /\ prev.v = "default"))
                  open == IF cb THEN "" ELSE c.open
                  close == IF cb THEN "" ELSE c.close
                  r == GI(cfg, c, 1, TRUE, "", imps)
              IN << open \o r[1] \o (IF ~r[2] /\ c.multi /\ close # "" THEN (IF c.sep = "," THEN ",\n" ELSE "\n") ELSE "") \o close, r[3] >>

\* ---- import block (jen.go:96-171); cfg.sorted = all paths in sorted order (from the recorder) ----
Q(p, cfg) == cfg.paths[p].quoted
RECURSIVE ImpLines(_, _, _, _)
ImpLines(cfg, imps, ps, acc) ==
  IF ps = <<>> THEN acc
  ELSE LET p == Head(ps)  d == Find(imps, p) IN
       ImpLines(cfg, imps, Tail(ps), acc \o (IF d.alias /\ p # "C" THEN d.name \o " " \o Q(p, cfg) ELSE Q(p, cfg)) \o "\n")
RECURSIVE Cat(_)
Cat(ss) == IF ss = <<>> THEN "" ELSE Head(ss) \o "\n" \o Cat(Tail(ss))
Imports(cfg, imps) ==
  LET hasC == Find(imps, "C").name # "" \/ Len(cfg.preamble) > 0
      sep == hasC /\ Len(cfg.preamble) > 0
      ps == SelectSeq(cfg.sorted, LAMBDA p : Find(imps, p).name # "" /\ ~(p = "C" /\ sep))
      main == IF Len(ps) = 0 THEN ""
              ELSE IF Len(ps) = 1
                   THEN LET p == ps[1]  d == Find(imps, p) IN
                        "import " \o (IF d.alias /\ p # "C" THEN d.name \o " " ELSE "") \o Q(p, cfg) \o "\n\n"
                   ELSE "import (\n" \o ImpLines(cfg, imps, ps, "") \o ")\n\n"
  IN main \o (IF sep THEN Cat(cfg.preamble) \o "import \"C\"\n\n" ELSE "")

RenderFile(cfg, body) ==
  LET b == GI(cfg, [items |-> body, sep |-> "", multi |-> TRUE], 1, TRUE, "", cfg.anon)
  IN (IF Len(cfg.headers) > 0 THEN Cat(cfg.headers) \o "\n" ELSE "") \o Cat(cfg.comments)
     \o "package " \o cfg.name \o (IF cfg.canonical # "" THEN " // import " \o cfg.canonicalq ELSE "") \o "\n\n"
     \o Imports(cfg, b[3]) \o b[1]

VARIABLES l
Init == l = 1
Next == /\ l <= Len(Trace) /\ l' = l + 1
        /\ (RenderFile(Trace[l].cfg, Trace[l].body) # Trace[l].raw) => CSVWrite("%1$s", <<l>>, "/tmp/spike/tla/fdrift.txt")
Spec == Init /\ [][Next]_l
Accepted == TLCGet("stats").diameter - 1 = Len(Trace)
====
