SPECIFICATION Spec
CONSTANT MaxOps = 3
VIEW view
CONSTRAINT Emit
CHECK_DEADLOCK FALSE
