SPECIFICATION Spec
INVARIANT Conform
POSTCONDITION Accepted
CHECK_DEADLOCK FALSE
