---- MODULE Exp ----
EXTENDS Naturals, Sequences, FiniteSets, TLC, Json, SequencesExt
Leaves == {"x", "y", "null", "nil", "empty", "estmt", "elist"}
Kinds == {"call", "list", "index", "block"}
Cases == {[kind |-> k, items |-> s] : k \in Kinds, s \in UNION {[1..n -> Leaves] : n \in 0..5}}
ASSUME PrintT(Cardinality(Cases))
ASSUME ndJsonSerialize("/tmp/spike/tla/cases.ndjson", SetToSeq(Cases))
VARIABLE x
Init == x = 0
Next == UNCHANGED x
====
