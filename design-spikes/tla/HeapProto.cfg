SPECIFICATION Spec
CONSTANTS MaxCells = 3
 MaxOps = 6
 HeaderCopy = TRUE
INVARIANT ListModel
CHECK_DEADLOCK FALSE
