---- MODULE TraceAcc ----
EXTENDS Naturals, Sequences, FiniteSets, TLC, Json, CSV

Trace == ndJsonDeserialize("/tmp/spike/tla/trace.ndjson")
VFile == "/tmp/spike/tla/viol.ndjson"

VARIABLES l, tid, prefix, hints, bound
vars == <<l, tid, prefix, hints, bound>>
Init == l = 1 /\ tid = 0 /\ prefix = "" /\ hints = <<>> /\ bound = <<>>
E == Trace[l]
IsEv(e) == l <= Len(Trace) /\ E.ev = e /\ l' = l + 1
Put(f, k, v) == [x \in DOMAIN f \cup {k} |-> IF x = k THEN v ELSE f[x]]
SeqToSet(s) == {s[i] : i \in DOMAIN s}

Reset == IsEv("Reset") /\ tid' = tid + 1 /\ prefix' = E.prefix /\ hints' = <<>> /\ bound' = <<>>
ImportName == IsEv("ImportName") /\ hints' = Put(hints, E.p, [name |-> E.n, alias |-> FALSE]) /\ UNCHANGED <<tid, prefix, bound>>
ImportAlias == IsEv("ImportAlias") /\ hints' = Put(hints, E.p, [name |-> E.n, alias |-> TRUE]) /\ UNCHANGED <<tid, prefix, bound>>
AddQual == IsEv("AddQual") /\ UNCHANGED <<tid, prefix, hints, bound>>

Report(prop, key) == CSVWrite("{\"prop\":\"%1$s\",\"trace\":%2$s,\"line\":%3$s,\"key\":\"%4$s\"}", <<prop, tid, l, key>>, VFile)

Render ==
  /\ IsEv("Render")
  /\ LET specs == SeqToSet(E.specs)
         refs == SeqToSet(E.refs)
         dups == {a \in specs : a.alias /\ a.name \notin {"_", "."} /\ \E b \in specs : b.path # a.path /\ b.alias /\ b.name = a.name}
         unstable == {r \in refs : r.path \in DOMAIN bound /\ bound[r.path] # r.qual}
     IN /\ \A a \in dups : Report("C05", a.name)
        /\ \A r \in unstable : Report("C08", r.path)
        /\ bound' = [p \in DOMAIN bound \cup {r.path : r \in refs} |->
                       IF p \in DOMAIN bound THEN bound[p] ELSE (CHOOSE r \in refs : r.path = p).qual]
  /\ UNCHANGED <<tid, prefix, hints>>

Next == Reset \/ ImportName \/ ImportAlias \/ AddQual \/ Render
Spec == Init /\ [][Next]_vars
Accepted == TLCGet("stats").diameter - 1 = Len(Trace)
====
