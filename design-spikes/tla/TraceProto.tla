---- MODULE TraceProto ----
EXTENDS Naturals, Sequences, FiniteSets, TLC, Json

Trace == ndJsonDeserialize("/tmp/spike/tla/trace.ndjson")

Reserved == {"break","default","func","interface","select","case","defer","go","map","struct","chan","else","goto","package","switch","const","fallthrough","if","range","type","continue","for","import","return","var",
 "bool","byte","int","any","comparable","err","string","true","false","nil","iota","len","cap","new","make","append","error"}

VARIABLES l, prefix, hints, seen, obs, nviol
vars == <<l, prefix, hints, seen, obs, nviol>>

NoObs == [specs |-> <<>>, refs |-> <<>>]
Init == l = 1 /\ prefix = "" /\ hints = <<>> /\ seen = <<>> /\ obs = NoObs /\ nviol = 0

E == Trace[l]
IsEv(e) == l <= Len(Trace) /\ E.ev = e /\ l' = l + 1

Reset == IsEv("Reset") /\ prefix' = E.prefix /\ hints' = <<>> /\ seen' = <<>> /\ obs' = NoObs /\ UNCHANGED nviol
Put(f, k, v) == [x \in DOMAIN f \cup {k} |-> IF x = k THEN v ELSE f[x]]
ImportName == IsEv("ImportName") /\ hints' = Put(hints, E.p, [name |-> E.n, alias |-> FALSE]) /\ UNCHANGED <<prefix, seen, obs, nviol>>
ImportAlias == IsEv("ImportAlias") /\ hints' = Put(hints, E.p, [name |-> E.n, alias |-> TRUE]) /\ UNCHANGED <<prefix, seen, obs, nviol>>
AddQual == IsEv("AddQual") /\ UNCHANGED <<prefix, hints, seen, obs, nviol>>

SeqToSet(s) == {s[i] : i \in DOMAIN s}
Render == /\ IsEv("Render")
          /\ obs' = [specs |-> E.specs, refs |-> E.refs]
          /\ seen' = [p \in DOMAIN seen \cup {r.path : r \in SeqToSet(E.refs)} |->
                         IF p \in DOMAIN seen THEN seen[p] ELSE (CHOOSE r \in SeqToSet(E.refs) : r.path = p).qual]
          /\ UNCHANGED <<prefix, hints, nviol>>

Next == Reset \/ ImportName \/ ImportAlias \/ AddQual \/ Render
Spec == Init /\ [][Next]_vars

Specs == SeqToSet(obs.specs)
Refs == SeqToSet(obs.refs)
RealName(s) == IF s.path \in DOMAIN hints /\ ~hints[s.path].alias THEN hints[s.path].name ELSE s.std
C03_Resolve == \A r \in Refs : \E s \in Specs : s.path = r.path /\ ((s.alias /\ s.name = r.qual) \/ (~s.alias /\ r.qual # "" /\ r.qual = RealName(s)))
C05_Unique == \A a, b \in Specs : (a.path # b.path /\ a.alias /\ b.alias /\ a.name = b.name) => a.name \in {"_", "."}
C05_Legal == \A a \in Specs : a.alias => a.name \notin Reserved
C08_Stable == \A r \in Refs : r.path \in DOMAIN seen => seen[r.path] = r.qual
Accepted == TLCGet("stats").diameter - 1 = Len(Trace)
====
