---- MODULE Rnd ----
EXTENDS Naturals, Sequences, TLC, Randomization
RECURSIVE Tree(_)
Tree(d) == IF d = 0 THEN [k |-> "leaf", v |-> RandomElement(1..100), items |-> <<>>]
           ELSE LET n == RandomElement(0..3) IN [k |-> "node", v |-> RandomElement(1..100), items |-> [i \in 1..n |-> Tree(d-1)]]
ASSUME PrintT(<<"T", Tree(2)>>)
ASSUME PrintT(<<"S", RandomSubset(3, 1..1000)>>)
VARIABLE x
Init == x = 0
Next == UNCHANGED x
====
