---- MODULE ImportsProto ----
EXTENDS Naturals, Sequences, FiniteSets, TLC

CONSTANTS MaxOps

Paths == {"x/d", "y/d", "x/d1", "fmt", "x/fmt", "x/go", "C"}
Base == [p \in Paths |-> CASE p = "x/d" -> "d" [] p = "y/d" -> "d" [] p = "x/d1" -> "d1" [] p = "fmt" -> "fmt"
                          [] p = "x/fmt" -> "fmt" [] p = "x/go" -> "go" [] p = "C" -> "c"]
Std == [p \in Paths |-> IF p = "fmt" THEN "fmt" ELSE ""]
Reserved == {"go", "int", "err", "any"}
Prefixes == {"", "pkg"}
HintNames == {"d", "go", "q", "."}

NoDef == [name |-> "", alias |-> FALSE]

VARIABLES prefix, hints, imports, body, out, nops
vars == <<prefix, hints, imports, body, out, nops>>

IsValid(imps, a) == a = "." \/ (a \notin Reserved /\ \A q \in Paths : imps[q].name # a)

Suffix(n, i) == IF i = 0 THEN n ELSE n \o ToString(i)
Fin(cand, u) == LET al == cand.alias \/ u # cand.name IN IF prefix # "" /\ al /\ u # "." THEN prefix \o "_" \o u ELSE u
UniqueI(imps, cand) == CHOOSE i \in 0..(Cardinality(Paths)+2) : IsValid(imps, Fin(cand, Suffix(cand.name, i))) /\ IsValid(imps, Suffix(cand.name, i)) /\ \A j \in 0..(i-1) : ~(IsValid(imps, Fin(cand, Suffix(cand.name, j))) /\ IsValid(imps, Suffix(cand.name, j)))

Reg(imps, p) ==
  IF imps[p].name # "" /\ imps[p].name # "_" THEN imps
  ELSE IF p = "C" THEN [imps EXCEPT !["C"] = [name |-> "C", alias |-> FALSE]]
  ELSE LET cand == IF hints[p].name # "" THEN hints[p]
                   ELSE IF Std[p] # "" THEN [name |-> Std[p], alias |-> FALSE]
                   ELSE [name |-> Base[p], alias |-> TRUE]
           u == Suffix(cand.name, UniqueI(imps, cand))
           al == cand.alias \/ u # cand.name
       IN [imps EXCEPT ![p] = [name |-> Fin(cand, u), alias |-> al]]

RECURSIVE RegAll(_, _)
RegAll(imps, s) == IF s = <<>> THEN imps ELSE RegAll(Reg(imps, Head(s)), Tail(s))

IsDot(p) == hints[p].name = "." /\ hints[p].alias

Init == /\ prefix \in Prefixes
        /\ hints = [p \in Paths |-> NoDef]
        /\ imports = [p \in Paths |-> NoDef]
        /\ body = <<>>
        /\ out = [specs |-> {}, quals |-> <<>>]
        /\ nops = 0

Step == nops < MaxOps /\ nops' = nops + 1

ImportName(p, n) == Step /\ n # "." /\ hints' = [hints EXCEPT ![p] = [name |-> n, alias |-> FALSE]] /\ UNCHANGED <<prefix, imports, body, out>>
ImportAlias(p, n) == Step /\ hints' = [hints EXCEPT ![p] = [name |-> n, alias |-> TRUE]] /\ UNCHANGED <<prefix, imports, body, out>>
Anon(p) == Step /\ imports' = [imports EXCEPT ![p] = [name |-> "_", alias |-> TRUE]] /\ UNCHANGED <<prefix, hints, body, out>>
AddQual(p) == Step /\ Len(body) < 3 /\ body' = Append(body, p) /\ UNCHANGED <<prefix, hints, imports, out>>
Render == /\ Step /\ body # <<>>
          /\ LET imps == RegAll(imports, body) IN
             /\ imports' = imps
             /\ out' = [specs |-> {[path |-> p, name |-> imps[p].name, alias |-> imps[p].alias] : p \in {q \in Paths : imps[q].name # ""}},
                        quals |-> [i \in 1..Len(body) |-> IF IsDot(body[i]) THEN "" ELSE imps[body[i]].name]]
          /\ UNCHANGED <<prefix, hints, body>>

Next == \/ \E p \in Paths, n \in HintNames : ImportName(p, n) \/ ImportAlias(p, n)
        \/ \E p \in Paths : Anon(p) \/ AddQual(p)
        \/ Render

Spec == Init /\ [][Next]_vars

\* C05: names unique (except _ and .)
UniqueNames == \A a, b \in out.specs : (a.path # b.path /\ a.name = b.name) => a.name \in {"_", "."}
NotReserved == \A a \in out.specs : a.name \notin Reserved
====
