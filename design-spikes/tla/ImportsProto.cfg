SPECIFICATION Spec
CONSTANT MaxOps = 3
INVARIANT UniqueNames
INVARIANT NotReserved
CHECK_DEADLOCK FALSE
